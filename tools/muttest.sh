#!/bin/bash
# tools/muttest.sh <dir with patch.diff> <tag> <tier> <ID> [<ID> ...]
# Fresh scratch worktree of /repo's HEAD (outside /repo and /verif) + the seeded patch, run the named checks against it with
# evidence/replays redirected to /tmp/stage/res/<tag>, remove the worktree.  /repo itself is never touched.
M="$1"; TAG="$2"; TIER="$3"; shift 3
WT=/tmp/mut/x_$TAG
git -C /repo worktree remove --force "$WT" >/dev/null 2>&1
git -C /repo worktree add --detach "$WT" HEAD >/dev/null 2>&1 || { echo "cannot create worktree"; exit 2; }
if ! git -C "$WT" apply "$M/patch.diff" 2>/dev/null; then echo "$TAG: patch does not apply to HEAD"; git -C /repo worktree remove --force "$WT"; exit 2; fi
"$(dirname "$0")/mutrun.sh" "$WT" "${STAGE_RES:-/tmp/stage/res}/$TAG" "$TIER" "$@" | sed "s/^/$TAG: /"
git -C /repo worktree remove --force "$WT" >/dev/null 2>&1
