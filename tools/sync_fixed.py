#!/usr/bin/env python3
"""Rewrites the `fixed` entries of known_findings.json from /repo's git log (commit ids change when history is edited).
Fixed entries suppress nothing; they record which check reported the defect and what failed."""
import json, os, subprocess

HERE = os.path.dirname(os.path.dirname(os.path.abspath(__file__)))
MAP = {  # commit subject (after "fix: ") -> (properties, what failed, which check/template reported it)
 "SeriesSchema.validate validates the index on the validated series": (["C03"], "SeriesSchema with an index schema returned the uncoerced input: validate(S,D)=D' did not conform to strip(S)", "C03 SI/val_coerce=1 fixpoint_conforms"),
 "Index/MultiIndex validation does not assign the coerced index on the caller's object": (["C04"], "Index/MultiIndex(coerce=True).validate(df) and SeriesSchema(index=Index(coerce=True)).validate(s) assigned the coerced index on the caller's object with inplace=False", "C04 SI/idx_coerce=1, K/index_coerce, K/multiindex_coerce input_unchanged"),
 "Column validation restores the schema name when validation fails": (["C05", "C06"], "a regex Column kept the matched column name after a failed validation / a raising user check", "C06 U/strict_regex schema_unchanged, X/frame_regex fault/schema_unchanged"),
 "drop_invalid_rows raises SchemaErrors for errors that are not attributable to rows": (["C06", "C11"], "drop_invalid_rows leaked TypeError ('string indices must be integers') for a wrong dtype / missing column / scalar check output (first example of docs/source/drop_invalid_rows.md)", "C06 U/drop_dtype_error_*, U/drop_missing_column, U/drop_scalar_check channel"),
 "pandas column and dataframe checks honour validation depth SCHEMA_ONLY": (["C18"], "column checks and dataframe-level checks ran (and failed validation) under SCHEMA_ONLY", "C18 DEPTH/* depth/so_is_schema_part"),
 "schema components honour validation_enabled=False": (["C18"], "Column/Index.validate validated although validation was disabled", "C18 DIS/column disabled/returns_argument"),
 "PANDERA_VALIDATION_ENABLED=False disables validation": (["C18"], "PANDERA_VALIDATION_ENABLED=False had no effect (`== 'True' or True`)", "C18 ENV/env_enabled (CrossHair counterexample v='False', replayed in a fresh interpreter)"),
 "duplicated null values are listed in the uniqueness failure cases": (["C02", "C11", "C03"], "duplicated NaN/None raised the uniqueness error but were missing from the failure cases; drop_invalid_rows left them in", "C02 report/complete; C11 drop/no_invalid_row_survives; C03 P/*drop=True fixpoint_conforms"),
 "parse_checks does not add the 'options' entry to the check's own statistics": (["C05"], "get_dataframe_schema_statistics / to_yaml / to_json / to_script changed the schema (check.statistics gained an 'options' key)", "C05 */statistics fingerprint_after_k, equal_to_fresh_schema"),
 "Column.properties includes drop_invalid_rows": (["C15"], "update_column(s) reset drop_invalid_rows on every column", "C15 op/update_columns(b) untouched/drop_invalid_rows, law/update_columns_identity"),
 "polars Column.properties includes drop_invalid_rows": (["C15"], "same omission in the polars Column (found by reading the anchor after the pandas counterexample)", "C15 (pandas counterexample; polars by inspection)"),
 "check_input with an integer obj_getter honours the validation options": (["C17"], "check_input(schema, 0, head=..., lazy=...) validated without the options: body did not run although direct validation accepts; SchemaError instead of SchemaErrors", "C17 int-pos, method-int gate / outcome_as_direct_validation"),
 "set_index/reset_index keep the remaining column properties": (["C15"], "reset_index(set_index(col)) lost title/description/default/report_duplicates/parsers/metadata/drop_invalid_rows", "C15 law/reset_after_set law_equal, law_attr/b.title"),
 "to_script quotes the schema-level title, description and strict='filter'": (["C12"], "to_script emitted title=T (NameError on exec) and strict=filter (the builtin)", "C12 */yaml roundtrip/script_equal (concrete complement)"),
 "to_script renders dataframe-level checks as Check objects": (["C12"], "to_script emitted the dataframe-level check statistics as a raw dict", "C12 df_checks/yaml roundtrip/script_equal (concrete complement)"),
 "infer_schema accepts an empty object column": (["C14"], "infer_schema raised TypeError ('empty' is not a dtype) for an empty object column", "C14 frame/str/N=0, series/str/N=0 infer/succeeds"),
 "polars str_matches anchors the whole pattern": (["C08"], "str_matches('a|b') accepted 'xb' on polars but not on pandas", "C08 CHK/str/str_matches[1],[5] backend_equiv/verdict"),
 "keep the context configuration in a context variable": (["C07"], "concurrent validate calls shared the context configuration: an invalid polars DataFrame was accepted while another thread validated a LazyFrame; the process configuration stayed changed after both calls returned", "C07 CFG/* schedule/every_read_sees_solo_value, schedule/configuration_restored (schedules replayed on OS threads)"),
 "a shallow copy of a schema no longer shares its attribute dict": (["C05", "C07"], "copy.copy(schema) shared __dict__ with the original (BaseSchema.__setstate__)", "found while repairing C07 ATTR/*; covered by C07 ATTR/* after the repair"),
 "pandas validation no longer mutates shared schema components temporarily": (["C07"], "two threads validating with one pandas schema observed each other's temporary dtype/coerce/name overrides: valid data rejected, schema left changed", "C07 ATTR/pandas-coerce, ATTR/pandas-regex-name, ATTR/pandas-df-dtype"),
 "polars Column.validate returns a DataFrame for a DataFrame": (["C04"], "polars Column.validate(pl.DataFrame) returned a LazyFrame (container kind not preserved)", "C04 PL/COL/*/lazyframe=False kind_preserved"),
 "polars joint uniqueness failures carry collected failure cases and a check output": (["C06", "C11", "C03"], "polars: lazy validation with a joint-uniqueness failure leaked NotImplementedError (LazyFrame failure cases); with drop_invalid_rows the duplicated rows survived (no check output)", "C06 PL/K/ab/unique=a+b/lazy=True channel; C11 PL/DROP/ab/unique=a+b drop/no_invalid_row_survives (first seen through a solver-produced input on a path that left the model); C03 PL/P fixpoint_conforms"),
 "polars subsample selects rows by position and supports sample": (["C20", "C06"], "polars: head/tail de-duplicated the selected rows by VALUE (unique()), so duplicated data rows were validated once and uniqueness violations accepted; sample= raised AttributeError (LazyFrame has no sample)", "C20 PL/SUB/* subsample/verdict (head=2 on two equal rows); C06/C20 PL/SUB/sample subsample/channel"),
 "polars column default also fills null values of float columns": (["C08"], "polars: a float column with a default kept its null cells (only NaN was filled): pandas accepts and fills, polars rejected or returned the nulls", "C08 PL/EQ/ab/default=True backend_equiv/schema_verdict, parsed_table"),
 "Category.coerce_value accepts missing values": (["C10"], "a failed Category coercion listed pre-existing nulls among the failure cases although a null converts (stays null)", "C10 CAT/try_coerce/N=2 coerce/failure_cases_exact"),
 "strategies of unique nullable fields emit at most one null": (["C13"], "SeriesSchema/Column/Index strategies with nullable=True and unique=True drew several nulls ([nan, nan]), which the schema rejects as duplicates", "C13 SER/*/custom=None series_draws_satisfy_schema (replayed with hypothesis.find)"),
 "to_script keeps the unique flag of index components": (["C12"], "to_script dropped unique=True of Index / MultiIndex levels (the generated script's schema differs from the original)", "C12 */yaml roundtrip/script_index_flags, script_equal (concrete complement on a second, non-default witness of the path)"),
 "check_input with a named argument keeps *args unpacked": (["C17"], "check_input(schema, 'x') on f(x, *more) called as f(df, 1, 2) handed the body more == ((1, 2),)", "C17 name-pos-varargs decorator/other_arguments_unchanged"),
 "dataframe strategies emit at most one null in unique nullable columns": (["C13"], "DataFrameSchema.strategy with a nullable=True, unique=True column drew several nulls in that column (the frame-level null mask ignored uniqueness)", "C13 DF/* frame_draws_satisfy_schema (replayed with hypothesis.find)"),
 "every violated set of jointly unique columns is reported": (["C11", "C02"], "DataFrameSchema(unique=[[a],[b]]) stopped at the first violated set: with drop_invalid_rows the duplicates of the other sets survived; the lazy report missed them (pandas and polars)", "C11 frame_sets/rd=exclude_first/N=3 drop/no_invalid_row_survives (thorough tier; the behaviour was first described by a mutation sub-agent's notes)"),
 "drop_invalid_rows drops every row failing a check that limits n_failure_cases": (["C11"], "Column(checks=Check.ge(lo, n_failure_cases=1)) under drop_invalid_rows dropped only the first failing row: the other invalid rows survived", "C11 frame_nfc/rd=all/N=2 drop/no_invalid_row_survives (the behaviour was first described by a mutation sub-agent's notes)"),
 "a stand-alone polars Column coerces only the column it selects": (["C08"], "polars Column(float, name='a', coerce=True).validate(frame) cast EVERY column of the frame (pandas coerces the named column only) and rejected a frame holding a text column", "C08 PL/COL/coerce=True/* column/other_columns_unchanged, verdict (the behaviour was first described by a mutation sub-agent's notes)"),
 "polars scalar failure cases are rendered as text like the row-level ones": (["C06", "C02"], "polars validate(lazy=True) leaked polars.exceptions.SchemaError when a check with a scalar False output (or a failed coercion of a stand-alone Column) was collected next to row-level failure cases", "C02/C06 PL/LZ/ab/.../scalar_check=True lazy/channel"),
 "check_types validates a single value passed through *args": (["C17"], "check_types on f(*frames: DataFrame[M]) called with exactly one frame: the frame was not validated and the body received ((df,),)", "C17 types-varargs1 decorator/gate, body_receives_validated, other_arguments_unchanged (the behaviour was first described by a mutation sub-agent's notes)"),
 "check_input with the default argument works on bound methods": (["C17"], "check_input(schema)(obj.method) (default designation, bound method object) raised IndexError on every call; designation by name or index worked", "C17 bound-none decorator/channel, outcome_as_direct_validation (the behaviour was first described by a mutation sub-agent's notes)"),
 "str_length strategy supports an open bound": (["C13"], "drawing from a schema with Check.str_length(None, n) or str_length(n, None) raised InvalidArgument / TypeError instead of producing data", "C13 thorough str/isin>str_length>eq: the stub's eager filter raised TypeError where the real (lazy) strategy construction succeeded — reported as a shim/real disagreement once len() of a symbolic string was modelled; confirmed by drawing from the real strategy"),
 "in_range strategy honours exclusive bounds for integer dtypes": (["C13"], "Check.in_range(0, 1, include_max=False) on an int column synthesised 1 (hypothesis ignores exclude_* for integers)", "C13 int/in_range draws_satisfy_checks (replayed with hypothesis.find)"),
}


def main():
    path = os.path.join(HERE, "known_findings.json")
    k = json.load(open(path))
    k["findings"] = [f for f in k["findings"] if f.get("status") != "fixed"]
    log = subprocess.run(["git", "-C", "/repo", "log", "--format=%h %s"], capture_output=True, text=True).stdout.splitlines()
    fixed = []
    for line in reversed(log):
        sha, subj = line.split(" ", 1)
        if not subj.startswith("fix: "):
            continue
        key = subj[5:]
        props, what, by = MAP.get(key, (["?"], subj, "?"))
        for p in props:
            fixed.append({"id": f"FIXED-{p}-{sha}", "status": "fixed", "property": p, "commit": sha,
                          "record": f"fixed: property={p} {sha} {what}", "reported_by": by})
    k["findings"] += fixed
    json.dump(k, open(path, "w"), indent=1)
    print(len(fixed), "fixed entries;", len([f for f in k["findings"] if f.get("status") == "open"]), "open findings")


if __name__ == "__main__":
    main()
