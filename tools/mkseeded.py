#!/usr/bin/env python3
"""Assembles /verif/seeded/<prop>-<m>/ from the staging area used while measuring the checks against seeded changes:
patch.diff (must apply to /repo's HEAD), demo.py, notes.md (the author's description), meta.json (property, what it needs to
manifest, what was run to confirm it, which checks report it)."""
import json, os, re, shutil, subprocess, sys

OUT = os.path.join(os.path.dirname(os.path.dirname(os.path.abspath(__file__))), "seeded")
os.makedirs(OUT, exist_ok=True)
ROUNDS = [("/tmp/stage", "", ""), ("/tmp/stage2", "r2", "r2-"), ("/tmp/stage3", "r3", "r3-"), ("/tmp/stage4", "r4", "r4-")]  # staging dir, result-tag prefix, id prefix
JOBS = [(st, rp, ip, prop) for st, rp, ip in ROUNDS if os.path.isdir(st) for prop in sorted(os.listdir(st)) if re.fullmatch(r"C\d\d", prop)]
for STAGE, RP, IP, prop in JOBS:
    for m in ("m1", "m2"):
        d = os.path.join(STAGE, prop, m)
        if not os.path.exists(os.path.join(d, "patch.diff")):
            continue
        conf = open(os.path.join(d, "confirm.txt")).read() if os.path.exists(os.path.join(d, "confirm.txt")) else ""
        demo_ok = "clean exit=0, patched exit=1" in conf
        ms = re.search(r"suite with patch: stable_pass=(\d+) passed_now=(\d+) missing=(\d+)", conf)
        missing = re.findall(r"NOT PASSING: (\S+)", conf)
        flaky = [t for t in missing if "test_nullable[" in t or "test_check_nullable_field_strategy" in t]
        suite_ok = bool(ms) and len(missing) == len(flaky)
        applies = subprocess.run(["git", "-C", "/repo", "apply", "--check", os.path.join(d, "patch.diff")], capture_output=True).returncode == 0
        tag = f"{RP}{prop}{m}"
        res = os.path.join(STAGE, "res", tag)
        if os.path.isdir(os.path.join("/tmp/regress/res", tag)):  # the last run of every seeded change against the final checks
            res = os.path.join("/tmp/regress/res", tag)
        caught = {}
        if os.path.isdir(res):
            for f in sorted(os.listdir(res)):
                if f.endswith(".log"):
                    txt = open(os.path.join(res, f)).read()
                    v = re.findall(r"template=(\S+) assertion=(\S+)", txt)
                    if "VIOLATION property=" in txt:
                        caught[f[:-4]] = sorted({f"{t} {a}" for t, a in v})[:6]
        if demo_ok and suite_ok and not applies:
            print(f"{tag}: confirmed but the patch no longer applies to /repo HEAD (superseded by a repair) - skipped")
            continue
        if not (demo_ok and suite_ok):
            print(f"{tag}: not confirmed yet (demo_ok={demo_ok} suite={'ok' if suite_ok else conf.strip().splitlines()[-1:] }) - skipped")
            continue
        dst = os.path.join(OUT, f"{IP}{prop}-{m}")
        os.makedirs(dst, exist_ok=True)
        for f in ("patch.diff", "demo.py", "notes.md"):
            if os.path.exists(os.path.join(d, f)):
                shutil.copy(os.path.join(d, f), os.path.join(dst, f))
        notes = open(os.path.join(d, "notes.md")).read() if os.path.exists(os.path.join(d, "notes.md")) else ""
        needs = ""
        mm = re.search(r"(?is)(what it needs|needs to manifest|needed to|manifest)[^\n]*\n(.{0,900})", notes)
        if mm:
            needs = " ".join(mm.group(2).split())[:700]
        fams = ", ".join(sorted(set(t.split("[")[0] for t in flaky))) or "none"
        meta = dict(property=prop, id=f"{IP}{prop}-{m}", breaks=prop, needs_to_manifest=needs or "see notes.md",
                    confirmed=dict(demo="exit 0 on a clean scratch worktree, exit 1 with the patch applied (tools/confirm_mutant.sh)",
                                   suite=f"pinned test command (one serial pytest process) with the patch: {ms.group(2)} tests pass, every BASELINE stable_pass test passes except "
                                         f"{len(flaky)} test(s) of the families that also fail on the unchanged tree ({fams})",
                                   applies_to_repo_head=applies),
                    detected_by={k: v for k, v in caught.items()},
                    how_run="tools/muttest.sh <dir> <tag> quick <checks>  (fresh scratch worktree of /repo HEAD + patch, checks run against it, worktree removed)")
        json.dump(meta, open(os.path.join(dst, "meta.json"), "w"), indent=1)
        print(f"{tag}: kept (applies_to_head={applies}) detected_by={list(caught)}")
# index of what is kept
rows = []
for d in sorted(os.listdir(OUT)):
    mp = os.path.join(OUT, d, "meta.json")
    if os.path.exists(mp):
        m = json.load(open(mp))
        rows.append(f"| {m['id']} | {m['property']} | {', '.join(sorted(m['detected_by'])) or 'not reported (see DESIGN.md 9.5)'} |")
open(os.path.join(OUT, "README.md"), "w").write(
    "# Seeded changes kept after confirmation\n\nEach directory: `patch.diff` (applies to /repo HEAD with `git apply`), `demo.py` (exit 0 on the clean tree, non-zero with the patch), "
    "`notes.md` (the author's description), `meta.json` (what it needs to manifest, how it was confirmed, which checks report it).\n"
    "Run the checks against one with `tools/muttest.sh seeded/<id> <tag> quick <IDs>` (scratch worktree; /repo is not touched).\n\n"
    "| id | property | reported by |\n|---|---|---|\n" + "\n".join(rows) + "\n")
