#!/bin/bash
# tools/mutrun.sh <worktree-with-patch-applied> <outdir> <tier> <ID> [<ID> ...]
# Runs checks against a scratch worktree of the repository (never /repo), evidence and replays go to <outdir>.
# Used only while measuring which checks notice which seeded change (DESIGN.md 9.5).
WT="$1"; OUT="$2"; TIER="$3"; shift 3
cd "$(dirname "$0")/.."
./setup.sh >/dev/null 2>&1
mkdir -p "$OUT"
for id in "$@"; do
  PVERIF_REPO="$WT" PVERIF_SCRATCH="$OUT" PYTHONDONTWRITEBYTECODE=1 PYTHONWARNINGS=ignore PANDERA_VERIF=1 \
    PYTHONPATH="$WT:$PWD/lib" .venv/bin/python -m pvcli "$id" "$TIER" > "$OUT/$id.log" 2>&1
  echo "$id exit=$? $(grep -c '^VIOLATION' "$OUT/$id.log") violation line(s); $(grep -c '^HARNESS-ERROR' "$OUT/$id.log") harness-error line(s)"
done
