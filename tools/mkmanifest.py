#!/usr/bin/env python3
"""Regenerates /verif/MANIFEST.json from the table below (kept valid against /root/.vp/MANIFEST.schema.json)."""
import json
import os

HERE = os.path.dirname(os.path.dirname(os.path.abspath(__file__)))

TB = ("Trusted base: z3; the symx proxies and path explorer; the symframe/sympolars environment models as validated by "
      "per-path replay on real pandas/polars; the run-time patches of DESIGN.md 2.2; the documentation-derived oracles; CPython.")

CHECKS = {
    "C01": dict(
        text="Bounded symbolic execution of the real validate pipeline on symbolic frames; per path z3 decides "
             "`accepted <=> documented-semantics oracle` and `output == input` for every cell value, null flag, label, check "
             "argument and boolean option within the stated shape bounds; counterexamples are replayed on real pandas.",
        ref="4/C01", tech="symbolic execution (symx over the symframe model) + z3 per-path obligations, differential replay on real pandas"),
}

NOT_APPLICABLE = {
    "C09": "closure statement over a finite dtype registry resolved through numpy/pandas/pyarrow/polars C/Rust parsers; no symbolic input survives the boundary, exhaustive enumeration (a different technique) is the right tool (DESIGN.md 4/C09)",
}
PENDING = "not yet built in this revision of the framework (see DESIGN.md build order); listed here until its check lands"


def main():
    props = [json.loads(l)["id"] for l in open(os.path.join(HERE, "properties.jsonl"))]
    checks = []
    for pid in props:
        if pid not in CHECKS:
            continue
        c = CHECKS[pid]
        checks.append(dict(
            property_id=pid, quick_cmd=f"./vcheck {pid} quick", thorough_cmd=f"./vcheck {pid} thorough",
            evidence_file=f"/verif/evidence/{pid}.json", replay_cmd_template="./vcheck replay {path}", engine=c.get("engine", "symx"),
            level_claimed=dict(category="model_checking", text=c["text"], design_ref=c["ref"]),
            level_note=c.get("note", TB), technique=c["tech"]))
    na = [dict(property_id=p, reason=NOT_APPLICABLE.get(p, PENDING)) for p in props if p not in CHECKS]
    m = dict(
        version=1, setup_cmd="./setup.sh",
        hooks=dict(guard="PANDERA_VERIF", enable="no source hook is needed: checks patch pandera at run time (DESIGN.md 2.2); PANDERA_VERIF=1 is exported by ./vcheck but unused by /repo",
                   baseline_off_cmd="cd /repo && /venv/bin/python -m pytest -ra -q -p no:cacheprovider --timeout=900 --continue-on-collection-errors",
                   source_commits=[], add_only=True),
        engines=[
            dict(name="symx", path="lib/symx.py", serves_properties=[p for p in props if p in CHECKS], kind_free_text="symbolic executor for real Python code (proxy values, re-execution DFS, z3 decides every branch)"),
            dict(name="symframe", path="lib/symframe.py", serves_properties=[p for p in props if p in CHECKS], kind_free_text="pandas API over z3 terms (environment model), validated per path against real pandas"),
        ],
        checks=checks, not_applicable=na,
        notes="All checks: ./vcheck <ID> quick|thorough; exit 0 ok, 1 VIOLATION (replayed on the real code), 3 harness error. Known findings: known_findings.json.",
    )
    json.dump(m, open(os.path.join(HERE, "MANIFEST.json"), "w"), indent=1)
    try:
        import jsonschema
        jsonschema.validate(m, json.load(open("/root/.vp/MANIFEST.schema.json")))
        print("MANIFEST.json valid;", len(checks), "checks,", len(na), "not applicable")
    except ImportError:
        print("written (jsonschema not available to validate)")


if __name__ == "__main__":
    main()
