#!/usr/bin/env python3
"""Regenerates /verif/MANIFEST.json from the table below (kept valid against /root/.vp/MANIFEST.schema.json)."""
import json
import os

HERE = os.path.dirname(os.path.dirname(os.path.abspath(__file__)))

TB = ("Trusted base: z3; the symx proxies and path explorer; the symframe/sympolars environment models as validated by "
      "per-path replay on real pandas/polars; the run-time patches of DESIGN.md 2.2; the documentation-derived oracles; CPython.")

CHECKS = {
    "C01": dict(
        text="Bounded symbolic execution of the real validate pipeline on symbolic frames; per path z3 decides "
             "`accepted <=> documented-semantics oracle` and `output == input` for every cell value, null flag, label, check "
             "argument and boolean option within the stated shape bounds; counterexamples are replayed on real pandas.",
        ref="4/C01", tech="symbolic execution (symx over the symframe model) + z3 per-path obligations, differential replay on real pandas"),
    "C02": dict(
        text="The same symbolic (schema, data) is validated eagerly and lazily inside one path; z3 decides per path that both raise or neither, that the eager error is among the lazy ones, and that the consolidated failure-case table (a symbolic table whose row-presence conditions are formulas) lists exactly the violating (column, label, value) cells; error counts compared per reason.",
        ref="4/C02", tech="symbolic execution of both validation modes + z3 obligations over the symbolic failure-case table"),
    "C03": dict(
        text="For every combination of parsing options in the template family the returned symbolic object is re-validated inside the same path by the real code (parsing options off, and again with them on); z3 proves acceptance and cell-wise identity for all inputs within the bounds.",
        ref="4/C03", tech="symbolic execution (fixpoint harness) + z3"),
    "C04": dict(
        text="Input snapshot (term lists, labels, names, dtypes) before vs after the real validate call on every path and every outcome; equality discharged syntactically or by z3; container kind asserted on return.",
        ref="4/C04", tech="symbolic execution with aliasing-aware environment model + z3"),
    "C06": dict(
        text="Every explored path of the schema-shape family must end in the documented channel; user callbacks consult one symbolic fault flag per invocation, so the solver enumerates fault schedules; schema fingerprint, configuration and input compared before/after.",
        ref="4/C06", tech="symbolic execution with symbolic fault schedules (one solver variable per callback invocation)"),
    "C10": dict(
        text="The real try_coerce / numpy_pandas_coerce_failure_cases protocol runs over a stub pair for the element conversion (one uninterpreted Boolean per element); z3 proves success => same rows and dtype check, failure => failure cases are exactly the inconvertible elements, idempotence; schema-level coercion verdicts against the numeric astype model.",
        ref="4/C10", tech="symbolic execution with an uninterpreted element-conversion stub pair + z3"),
    "C11": dict(
        text="Row presence of the returned symbolic frame is a formula over the inputs; z3 proves it equals the documented row-level validity predicate (no invalid row survives, no valid row dropped, surviving cells unchanged).",
        ref="4/C11", tech="symbolic execution + z3 equivalence of row-presence formulas with the oracle"),
    "C18": dict(
        text="Real config_context nestings with symbolic option values/None-ness/exception flags (restoration and honouring proved per path); CrossHair on the real env parser with a symbolic environment; depth algebra acc_SAD <=> acc_SO and acc_DO and restriction laws on symbolic frames; polars default-depth truth table.",
        ref="4/C18", tech="symbolic execution (symx) + CrossHair (z3) on string-valued environment parsing"),
    "C05": dict(
        text="Histories of public-API operations chosen by the solver (engine.choice per step), the data of each validating step symbolic; fingerprint of the schema object graph and the verdict on a symbolic probe compared with a fresh schema after every prefix.",
        ref="4/C05", tech="symbolic execution over operation histories (solver-chosen next operation) + z3"),
    "C07": dict(
        text="Bounded model checking of schedules: the real validate calls are traced alone (configuration operations; reads/writes of shared schema attributes), the operation semantics are extracted from pandera/config.py by symbolic execution, and z3 is asked for an interleaving of 2-3 threads in which a read observes a non-solo value or shared state is not restored; every schedule found is replayed on real OS threads under a deterministic scheduler.",
        ref="2.5, 4/C07", tech="SMT-based bounded model checking of thread schedules over traced operations (z3), schedule replay on OS threads", engine="schedsmt"),
    "C08": dict(
        text="The two real implementations of every built-in check and the two real check back ends run on the same symbolic column (symframe vs sympolars); z3 decides verdict and failing-row agreement for all cells, nulls and arguments; label-level twin functions compared on real frames per solver-chosen option.",
        ref="4/C08", tech="differential symbolic execution of the pandas and polars implementations + z3 equivalence queries"),
    "C12": dict(
        text="serialize/deserialize run on schemas with symbolic attributes under a YAML/JSON contract stub; pandera's own __eq__ (a symbolic Boolean) and dictionary equality are discharged by z3; every path witness is also pushed through the real YAML/JSON/to_script text level (concrete complement, not solver-decided).",
        ref="4/C12", tech="symbolic execution with contract stubs for the text codecs + z3; concrete replay of witnesses through the real codecs"),
    "C13": dict(
        text="The real strategy algebra runs on constraint-collecting stand-ins for hypothesis constructors; z3 proves constraints(x) => all real checks pass on [x] for every chain of built-in checks within the bound; counterexamples replayed with hypothesis.find on the real strategy.",
        ref="4/C13", tech="symbolic execution with contract stubs for hypothesis + z3 implication queries"),
    "C14": dict(
        text="infer_schema and the following validate run on symbolic frames (accept, identity, tightness of bounds, survival of serialisation) plus a bit-precise QF_BVFP lemma over all int64 pairs for the float() conversion of inferred bounds (cvc5, z3).",
        ref="4/C14", tech="symbolic execution + z3; QF_BVFP lemma discharged by cvc5/z3"),
    "C15": dict(
        text="Transformation methods run on schemas whose every scalar attribute is symbolic; untouched attributes are compared term by term, inverse laws through pandera's __eq__, mirror law accept(S,D) => accept(op(S),op(D)) on symbolic frames.",
        ref="4/C15", tech="symbolic execution over schema attributes and frames + z3"),
    "C16": dict(
        text="Class bodies (single, inheritance with overrides, Optional/alias, @check/@dataframe_check, Config) are instantiated per path with symbolic Field arguments; verdict of Model.validate vs the equivalent DataFrameSchema on symbolic frames, to_schema stability, parents unchanged.",
        ref="4/C16", tech="symbolic execution of the model compiler and both validation routes + z3"),
    "C17": dict(
        text="Decorated functions over a family of signatures/designations/call shapes with symbolic frames and solver-chosen validation options; gate, transparency and option honouring asserted per path against direct validation.",
        ref="4/C17", tech="symbolic execution of the decorator wrappers + z3"),
    "C19": dict(
        text="Metamorphic pairs executed in one path on the same symbolic data (element_wise vs vectorised, ignore_na, n_failure_cases, raise_warning, groupby, aliases); equalities of verdicts and failure slots discharged by z3.",
        ref="4/C19", tech="symbolic execution of metamorphic pairs + z3 equivalence queries"),
    "C20": dict(
        text="head/tail/sample with solver-chosen sizes and a nondeterministic sample stub (one Boolean per position); z3 proves the verdict equals the positional oracle and that the whole object is returned.",
        ref="4/C20", tech="symbolic execution with a nondeterministic sample stub + z3"),
}

NOT_APPLICABLE = {
    "C09": "closure statement over a finite dtype registry resolved through numpy/pandas/pyarrow/polars C/Rust parsers; no symbolic input survives the boundary, exhaustive enumeration (a different technique) is the right tool (DESIGN.md 4/C09)",
}
PENDING = "not yet built in this revision of the framework (see DESIGN.md build order); listed here until its check lands"


def main():
    props = [json.loads(l)["id"] for l in open(os.path.join(HERE, "properties.jsonl"))]
    checks = []
    for pid in props:
        if pid not in CHECKS:
            continue
        c = CHECKS[pid]
        checks.append(dict(
            property_id=pid, quick_cmd=f"./vcheck {pid} quick", thorough_cmd=f"./vcheck {pid} thorough",
            evidence_file=f"/verif/evidence/{pid}.json", replay_cmd_template="./vcheck replay {path}", engine=c.get("engine", "symx"),
            level_claimed=dict(category="model_checking", text=c["text"], design_ref=c["ref"]),
            level_note=c.get("note", TB), technique=c["tech"]))
    na = [dict(property_id=p, reason=NOT_APPLICABLE.get(p, PENDING)) for p in props if p not in CHECKS]
    m = dict(
        version=1, setup_cmd="./setup.sh",
        hooks=dict(guard="PANDERA_VERIF", enable="no source hook is needed: checks patch pandera at run time (DESIGN.md 2.2); PANDERA_VERIF=1 is exported by ./vcheck but unused by /repo",
                   baseline_off_cmd="cd /repo && /venv/bin/python -m pytest -ra -q -p no:cacheprovider --timeout=900 --continue-on-collection-errors",
                   source_commits=[], add_only=True),
        engines=[
            dict(name="symx", path="lib/symx.py", serves_properties=[p for p in props if p in CHECKS], kind_free_text="symbolic executor for real Python code (proxy values, re-execution DFS, z3 decides every branch)"),
            dict(name="schedsmt", path="lib/props/c07.py", serves_properties=["C07"], kind_free_text="SMT bounded model checking of thread schedules over traced operations; replay on OS threads"),
            dict(name="sympolars", path="lib/sympolars.py", serves_properties=["C08"], kind_free_text="polars expression algebra over z3 terms (Kleene null logic)"),
            dict(name="symstrat", path="lib/symstrat.py", serves_properties=["C13"], kind_free_text="hypothesis strategy constructors as constraint collectors (contract stubs)"),
            dict(name="crosshair", path="lib/ch_env.py", serves_properties=["C18"], kind_free_text="CrossHair 0.0.110 conditions over the real environment parser (symbolic strings)"),
            dict(name="symframe", path="lib/symframe.py", serves_properties=[p for p in props if p in CHECKS], kind_free_text="pandas API over z3 terms (environment model), validated per path against real pandas"),
        ],
        checks=checks, not_applicable=na,
        notes="All checks: ./vcheck <ID> quick|thorough; exit 0 ok, 1 VIOLATION (replayed on the real code), 3 harness error. Known findings: known_findings.json.",
    )
    json.dump(m, open(os.path.join(HERE, "MANIFEST.json"), "w"), indent=1)
    try:
        import jsonschema
        jsonschema.validate(m, json.load(open("/root/.vp/MANIFEST.schema.json")))
        print("MANIFEST.json valid;", len(checks), "checks,", len(na), "not applicable")
    except ImportError:
        print("written (jsonschema not available to validate)")


if __name__ == "__main__":
    main()
