#!/bin/bash
# tools/confirm_mutant.sh <scratch-worktree> <dir with patch.diff + demo.py>
# Confirms a seeded change: demo passes on the clean worktree, fails with the patch; the pinned test-suite command (one
# serial pytest process, as in BASELINE.json) still passes every stable_pass test with the patch.  Leaves the worktree clean.
WT="$1"; M="$2"
cd "$WT" || exit 2
git checkout -- . 2>/dev/null
PYTHONPATH="$WT" /venv/bin/python "$M/demo.py" >"$M/demo_clean.out" 2>&1; c0=$?
git apply "$M/patch.diff" || { echo "patch does not apply"; exit 2; }
PYTHONPATH="$WT" /venv/bin/python "$M/demo.py" >"$M/demo_with_patch.out" 2>&1; c1=$?
echo "demo: clean exit=$c0, patched exit=$c1" | tee "$M/confirm.txt"
OUT=$(mktemp /tmp/junit.XXXXXX.xml)
env -u PANDERA_VERIF PYTHONPATH="$WT" /venv/bin/python -m pytest -ra -q -p no:cacheprovider --timeout=900 --continue-on-collection-errors --junitxml="$OUT" >/dev/null 2>&1
/venv/bin/python - "$OUT" <<'P' | tee -a "$M/confirm.txt"
import json, sys, xml.etree.ElementTree as ET
b = json.load(open("/root/.vp/BASELINE.json"))
passed = set()
for tc in ET.parse(sys.argv[1]).getroot().iter("testcase"):
    if not any(ch.tag in ("failure", "error", "skipped") for ch in tc):
        passed.add(f"{tc.get('classname')}::{tc.get('name')}")
missing = [t for t in b["stable_pass"] if t not in passed]
print(f"suite with patch: stable_pass={len(b['stable_pass'])} passed_now={len(passed)} missing={len(missing)}")
for t in missing[:15]:
    print("  NOT PASSING:", t)
P
rm -f "$OUT"
git checkout -- .
