#!/usr/bin/env python3
"""Runs the repository's pinned test command (guard off) and compares with /root/.vp/BASELINE.json stable_pass.
usage: baseline_check.py [extra pytest args]   (e.g. -n 8 to use xdist for a faster, informal run)"""
import json, os, subprocess, sys, tempfile, xml.etree.ElementTree as ET

b = json.load(open("/root/.vp/BASELINE.json"))
out = tempfile.mktemp(suffix=".junit.xml", dir="/tmp")
env = {k: v for k, v in os.environ.items() if k != "PANDERA_VERIF"}
cmd = ["/venv/bin/python", "-m", "pytest", "-ra", "-q", "-p", "no:cacheprovider", "--timeout=900", "--continue-on-collection-errors", f"--junitxml={out}"] + sys.argv[1:]
subprocess.run(cmd, cwd="/repo", env=env, stdout=subprocess.DEVNULL, stderr=subprocess.DEVNULL)
passed = set()
for tc in ET.parse(out).getroot().iter("testcase"):
    if not any(ch.tag in ("failure", "error", "skipped") for ch in tc):
        passed.add(f"{tc.get('classname')}::{tc.get('name')}")
os.remove(out)
missing = [t for t in b["stable_pass"] if t not in passed]
print(f"stable_pass={len(b['stable_pass'])} passed_now={len(passed)} missing={len(missing)}")
for t in missing[:40]:
    print("  NOT PASSING:", t)
sys.exit(1 if missing else 0)
