#!/usr/bin/env python3
"""Runs the pinned pytest suite of a worktree in file-level shards (parallel processes; xdist cannot be used because the
suite's parametrisations differ between workers) and compares the passing set with BASELINE.json stable_pass.
usage: suite_sharded.py <worktree> [jobs]"""
import glob, json, os, subprocess, sys, tempfile, xml.etree.ElementTree as ET
from concurrent.futures import ThreadPoolExecutor

wt = os.path.abspath(sys.argv[1])
jobs = int(sys.argv[2]) if len(sys.argv) > 2 else 12
files = sorted(glob.glob(os.path.join(wt, "tests", "**", "test_*.py"), recursive=True))
files = [os.path.relpath(f, wt) for f in files]
env = {k: v for k, v in os.environ.items() if k != "PANDERA_VERIF"}
env["PYTHONPATH"] = wt
tmp = tempfile.mkdtemp(prefix="suite", dir="/tmp")


def run(i_f):
    i, f = i_f
    out = os.path.join(tmp, f"{i}.xml")
    subprocess.run(["/venv/bin/python", "-m", "pytest", "-q", "-p", "no:cacheprovider", "--timeout=900", "--continue-on-collection-errors",
                    f"--junitxml={out}", f], cwd=wt, env=env, stdout=subprocess.DEVNULL, stderr=subprocess.DEVNULL)
    return out


with ThreadPoolExecutor(jobs) as ex:
    outs = list(ex.map(run, enumerate(files)))
passed = set()
for o in outs:
    if not os.path.exists(o):
        continue
    for tc in ET.parse(o).getroot().iter("testcase"):
        if not any(ch.tag in ("failure", "error", "skipped") for ch in tc):
            passed.add(f"{tc.get('classname')}::{tc.get('name')}")
    os.remove(o)
os.rmdir(tmp)
b = json.load(open("/root/.vp/BASELINE.json"))
missing = [t for t in b["stable_pass"] if t not in passed]
print(f"suite: files={len(files)} stable_pass={len(b['stable_pass'])} passed_now={len(passed)} missing={len(missing)}")
for t in missing[:20]:
    print("  NOT PASSING:", t)
sys.exit(1 if missing else 0)
