#!/bin/bash
# Builds the overlay virtualenv (offline): /venv's site-packages + the repository on the path + z3/cvc5/crosshair from the wheelhouse.
set -e
cd "$(dirname "$0")"
REPO="${PVERIF_REPO:-/repo}"
exec 9>/tmp/.pverif-setup.lock
flock 9
if [ -x .venv/bin/python ] && .venv/bin/python -c "import z3, cvc5, crosshair, pandera, pandas, polars" 2>/dev/null; then
  exit 0
fi
rm -rf .venv
/venv/bin/python -m venv .venv
SP=.venv/lib/python3.12/site-packages
echo "import site; site.addsitedir('/venv/lib/python3.12/site-packages')" > $SP/_o.pth
echo "$REPO" > $SP/_r.pth
PIP_NO_INDEX=1 .venv/bin/pip install -q --no-index --find-links /opt/veriftools/wheels z3-solver cvc5 crosshair-tool
.venv/bin/python -c "import z3, cvc5, crosshair, pandera, pandas, polars; print('pverif venv ready; pandera from', pandera.__file__)"
