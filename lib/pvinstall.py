"""Run-time installation of the symbolic pandas shim into pandera (no edit to the repository).

The four patches of DESIGN.md section 2.2, applied by identity: every global of every loaded `pandera.*` module
whose value IS the real pandas module is rebound to the proxy; a patch that finds nothing to rebind is a harness
error, not a result."""
import sys
import warnings

warnings.filterwarnings("ignore")
import pandas as pd  # noqa: E402
import pandera as pa  # noqa: E402
from pandera.api.checks import Check  # noqa: E402
from pandera.api.pandas import types as ptypes  # noqa: E402

import symframe  # noqa: E402
from symx import SymBool  # noqa: E402

_installed = False
PD_MODULES = (
    "pandera.backends.pandas.container", "pandera.backends.pandas.base", "pandera.backends.pandas.components",
    "pandera.backends.pandas.array", "pandera.backends.pandas.error_formatters", "pandera.backends.pandas.checks",
    "pandera.schema_statistics.pandas", "pandera.schema_inference.pandas", "pandera.backends.pandas.parsers",
)
REPORT = {}


class HarnessError(Exception):
    pass


def install():
    global _installed
    if _installed:
        return REPORT
    _installed = True
    orig = ptypes.get_backend_types

    def patched(fqn):
        if fqn.startswith("symframe."):
            return ptypes.BackendTypes(
                dataframe_datatypes=(symframe.DataFrame,),
                series_datatypes=(symframe.Series,),
                index_datatypes=(symframe.Index,),
                multiindex_datatypes=(symframe.MultiIndex,),
                check_backend_types=(symframe.DataFrame, symframe.Series, symframe.Index),
            )
        return orig(fqn)

    n_gbt = 0
    for mname, mod in list(sys.modules.items()):
        if mod is None or not mname.startswith("pandera"):
            continue
        for k, val in list(vars(mod).items()):
            if val is orig:
                setattr(mod, k, patched)
                n_gbt += 1
    if n_gbt == 0:
        raise HarnessError("get_backend_types not found in any pandera module")
    # make sure the real pandas backends and built-in checks are registered, then mirror them for the shim types
    pa.DataFrameSchema({"a": pa.Column(int)}).validate(pd.DataFrame({"a": [1]}))
    pa.SeriesSchema(int).validate(pd.Series([1]))
    from pandera.backends.pandas.register import register_pandas_backends

    register_pandas_backends("symframe.Series")
    n_disp = 0
    for disp in Check.CHECK_FUNCTION_REGISTRY.values():
        reg = disp._function_registry
        if pd.Series in reg:
            reg[symframe.Series] = reg[pd.Series]
            n_disp += 1
        if pd.DataFrame in reg:
            reg[symframe.DataFrame] = reg[pd.DataFrame]
    if n_disp == 0:
        raise HarnessError("no built-in check registered for pd.Series")
    import importlib

    for m in PD_MODULES:
        try:
            importlib.import_module(m)
        except ImportError:
            pass
    proxy = symframe.PdProxy()
    n_pd = 0
    import pandera.backends.pandas.checks as CK

    orig_is_bool = CK.is_bool
    new_is_bool = lambda x: isinstance(x, SymBool) or orig_is_bool(x)  # noqa: E731
    n_isbool = 0
    for mname, mod in list(sys.modules.items()):
        if mod is None or not (mname.startswith("pandera.backends.pandas") or mname.startswith("pandera.schema_")):
            continue
        for k, val in list(vars(mod).items()):
            if val is pd:
                setattr(mod, k, proxy)
                n_pd += 1
            elif val is orig_is_bool:
                setattr(mod, k, new_is_bool)
                n_isbool += 1
    if n_pd == 0 or n_isbool == 0:
        raise HarnessError(f"identity patches found nothing: pd={n_pd} is_bool={n_isbool}")
    # (e) C boundary: numpy_engine.DataType.coerce_value is `self.type.type(value)`, a numpy scalar constructor.  On a
    # symbolic numeric element it is the identity (every non-null int/float within the stated bounds converts between the
    # numeric kinds); nulls reach it as real nan/None and take the real path.
    from pandera.engines import numpy_engine
    from symx import SymInt, SymReal

    orig_cv = numpy_engine.DataType.coerce_value

    def coerce_value(self, value):
        if isinstance(value, (SymInt, SymReal)) and getattr(self.type, "kind", "") in "iuf":
            return value
        return orig_cv(self, value)

    numpy_engine.DataType.coerce_value = coerce_value
    # (f) Category.coerce_value is `value not in self.categories` — a hash lookup in a pandas Index.  On a symbolic string it is
    # the membership decision itself (one fork); every other value takes the real path.
    from pandera.engines import pandas_engine
    from symx import SymStr

    orig_cat_cv = pandas_engine.Category.coerce_value

    def cat_coerce_value(self, value):
        if isinstance(value, SymStr):  # (a symbolic string is never null: nulls reach coerce_value as real nan/None)
            if not any(bool(value == c) for c in self.categories):
                raise TypeError("value cannot be coerced to the categorical type")
            return value
        return orig_cat_cv(self, value)

    pandas_engine.Category.coerce_value = cat_coerce_value
    REPORT.update(get_backend_types=n_gbt, dispatch_entries=n_disp, pd_globals=n_pd, is_bool=n_isbool, coerce_value=1)
    return REPORT
