"""Template harness: the same template code is instantiated symbolically (symx + symframe) and concretely
(real pandas, values taken from a solver model).  The concrete instantiation is used for (a) the per-path
differential replay that keeps the environment model honest and (b) the replay of counterexamples against the
real code before anything is reported as a violation.  DESIGN.md sections 2.2 and 6."""
from __future__ import annotations

import math
import warnings

import numpy as np
import pandas as pd
import z3

import symframe
from symx import Engine, ModelGap, SymBool, SymInt, SymReal, SymStr, _Proxy, ev

# "Int": pandas' nullable integer extension dtype (kind 'i', but cells can be <NA>)
DT = {"int": np.dtype("int64"), "float": np.dtype("float64"), "str": np.dtype(object), "bool": np.dtype(bool), "Int": pd.Int64Dtype(),
      "object": np.dtype(object)}  # "object": concrete python objects (given values only)
SORT = {"int": z3.IntSort(), "float": z3.RealSort(), "str": z3.StringSort(), "bool": z3.BoolSort(), "Int": z3.IntSort()}
# alphabet of symbolic strings: printable ASCII plus one 2-byte and one 3-byte UTF-8 character (character count != byte count)
PRINTABLE = z3.Star(z3.Union(z3.Range(" ", "~"), z3.Re("\u00e9"), z3.Re("\u65e5")))
BOUND = 2**31


def _default(sort):
    if sort == z3.IntSort():
        return 0
    if sort == z3.RealSort():
        return 0.0
    if sort == z3.BoolSort():
        return False
    if sort == z3.StringSort():
        return ""
    raise ModelGap(f"default for sort {sort}")


def _to_z3(val, sort):
    if sort == z3.IntSort():
        return z3.IntVal(int(val))
    if sort == z3.RealSort():
        from fractions import Fraction

        fr = Fraction(val) if not isinstance(val, str) else Fraction(val)
        return z3.RealVal(f"{fr.numerator}/{fr.denominator}")
    if sort == z3.BoolSort():
        return z3.BoolVal(bool(val))
    if sort == z3.StringSort():
        return z3.StringVal(val)
    raise ModelGap(f"to_z3 {sort}")


def _consts(t, acc):
    stack, seen = [t], set()
    while stack:
        x = stack.pop()
        if x.get_id() in seen:
            continue
        seen.add(x.get_id())
        if z3.is_const(x) and x.decl().kind() == z3.Z3_OP_UNINTERPRETED:
            acc[x.decl().name()] = x
        else:
            stack.extend(x.children())
    return acc


class Vals(dict):
    """Concrete assignment name -> python value; evaluates z3 terms by substitution with completion defaults."""

    _pairs = None
    decls = None

    def term(self, t):
        if isinstance(t, (_Proxy, SymStr)):
            t = t.z
        if isinstance(t, tuple):
            return str(tuple(self.term(x) for x in t))
        if isinstance(t, symframe.CaseDict):
            return {k: (None if self.term(nl) else self.term(x)) for k, cond, x, nl in t.entries if self.term(cond)}
        if not z3.is_expr(t):
            return t
        if self.decls is not None:
            if self._pairs is None:
                self._pairs = [(c, _to_z3(self[name], c.sort())) for name, c in self.decls.items() if name in self]
            if self._pairs:
                t = z3.simplify(z3.substitute(t, *self._pairs))
                if z3.is_int_value(t) or z3.is_true(t) or z3.is_false(t) or z3.is_rational_value(t) or z3.is_string_value(t):
                    return _pyval(t)
        cs = _consts(t, {})
        pairs = []
        for name, c in cs.items():
            val = self[name] if name in self else _default(c.sort())
            pairs.append((c, _to_z3(val, c.sort())))
        r = z3.simplify(z3.substitute(t, *pairs)) if pairs else z3.simplify(t)
        return _pyval(r)

    def update(self, *a, **kw):
        self._pairs = None
        if a and isinstance(a[0], Vals) and a[0].decls:
            self.decls = dict(self.decls or {}, **a[0].decls)
        return super().update(*a, **kw)


def _unescape(s):
    """z3 prints characters outside Latin-1 (and some inside) as \\u{hex}"""
    import re as _re

    return _re.sub(r"\\u\{([0-9a-fA-F]+)\}", lambda m: chr(int(m.group(1), 16)), s)


def _pyval(v):
    if z3.is_int_value(v):
        return v.as_long()
    if z3.is_true(v):
        return True
    if z3.is_false(v):
        return False
    if z3.is_rational_value(v):
        return float(v.as_fraction())
    if z3.is_string_value(v):
        return _unescape(v.as_string())
    if z3.is_algebraic_value(v):
        return float(v.approx(20).as_fraction())
    # not fully simplified (e.g. regex membership on a literal): decide it with a tiny solver call
    if z3.is_bool(v):
        s = z3.Solver()
        s.set("timeout", 5000)
        s.add(v)
        r = str(s.check())
        if r == "sat":
            return True
        if r == "unsat":
            return False
    raise ModelGap(f"cannot evaluate {v}")


def vals_from_model(model, decls) -> Vals:
    """decls: name -> z3 const.  Exact rationals for reals are kept as 'p/q' strings (JSON-able, lossless)."""
    out = Vals()
    out.decls = dict(decls)
    for name, c in decls.items():
        v = model.eval(c, model_completion=True)
        if z3.is_rational_value(v) and not z3.is_int_value(v):
            fr = v.as_fraction()
            out[name] = int(fr) if fr.denominator == 1 else f"{fr.numerator}/{fr.denominator}"
        elif z3.is_algebraic_value(v):
            fr = v.approx(20).as_fraction()
            out[name] = f"{fr.numerator}/{fr.denominator}"
        else:
            out[name] = _pyval(v)
    return out


def _num(val):
    """python number of a stored value (reals may be 'p/q')."""
    if isinstance(val, str):
        from fractions import Fraction

        return float(Fraction(val))
    return val


class V:
    """Value provider.  mode 'sym': fresh solver variables (wrapped in proxies); mode 'conc': python values read
    from `vals` (a Vals dict) under the same names."""

    def __init__(self, engine: Engine | None, vals: Vals | None = None):
        self.e, self.vals = engine, vals
        self.sym = vals is None
        self.vars: dict = {}
        self.notes: dict = {}
        # every execution of a template starts from the pristine context configuration: what one execution leaks must be
        # seen by that execution's own before/after comparison, not hidden from the next one
        try:
            from pandera.config import reset_config_context

            reset_config_context()
        except Exception:  # noqa: BLE001 - templates that do not touch pandera's configuration
            pass

    # ------------------------------------------------------------------ scalars
    def _var(self, name, sort):
        v = z3.Const(name, sort)
        self.vars[name] = v
        return v

    def _get(self, name, sort):
        if name in self.vals:
            return self.vals[name]
        return _default(sort)

    def int(self, name, lo=-BOUND, hi=BOUND):
        z = self._var(name, z3.IntSort())
        if self.sym:
            self.e.assume(z3.And(z >= lo, z <= hi))
            return SymInt(z)
        return int(self._get(name, z3.IntSort()))

    def real(self, name, lo=-BOUND, hi=BOUND):
        z = self._var(name, z3.RealSort())
        if self.sym:
            self.e.assume(z3.And(z >= lo, z <= hi))
            return SymReal(z)
        return float(_num(self._get(name, z3.RealSort())))

    def bool(self, name):
        z = self._var(name, z3.BoolSort())
        return SymBool(z) if self.sym else bool(self._get(name, z3.BoolSort()))

    def str(self, name):
        z = self._var(name, z3.StringSort())
        if self.sym:
            self.e.assume(z3.InRe(z, PRINTABLE))
            return SymStr(z)
        return str(self._get(name, z3.StringSort()))

    def choice(self, name, options):
        options = list(options)
        z = self._var(name, z3.IntSort())
        if self.sym:
            self.e.assume(z3.And(z >= 0, z < len(options)))
            return self.e.choice(name, options)
        return options[int(self._get(name, z3.IntSort())) % len(options)]

    # ------------------------------------------------------------------ assertions usable in both modes
    def holds(self, cond):
        """z3 Bool / SymBool / bool -> z3 Bool (sym) or python bool (conc: evaluated under the assignment)."""
        if isinstance(cond, SymBool):
            cond = cond.z
        if isinstance(cond, (bool, np.bool_)):
            return bool(cond) if not self.sym else z3.BoolVal(bool(cond))
        if self.sym:
            return cond
        return bool(self.vals.term(cond))

    def iff(self, observed, spec):
        """observed: python bool (path-concrete) or term; spec: z3 term over the template's variables."""
        if self.sym:
            o = observed.z if isinstance(observed, SymBool) else (z3.BoolVal(bool(observed)) if isinstance(observed, (bool, np.bool_)) else observed)
            return o == spec
        return bool(observed) == bool(self.vals.term(spec))

    def z(self, x):
        """the z3 term (sym) or literal term (conc) of a provider value — for building oracle formulas."""
        if isinstance(x, (_Proxy, SymStr)):
            return x.z
        if isinstance(x, (bool, np.bool_)):
            return z3.BoolVal(bool(x))
        if isinstance(x, (int, np.integer)):
            return z3.IntVal(int(x))
        if isinstance(x, (float, np.floating)):
            from fractions import Fraction

            fr = Fraction(float(x))
            return z3.RealVal(f"{fr.numerator}/{fr.denominator}")
        if isinstance(x, str):
            return z3.StringVal(x)
        return x

    # ------------------------------------------------------------------ containers
    def cells(self, name, kind, n, nullable=True):
        vals = [self._var(f"{name}{i}", SORT[kind]) for i in range(n)]
        nulls = [self._var(f"{name}{i}_null", z3.BoolSort()) if nullable else z3.BoolVal(False) for i in range(n)]
        if self.sym:
            for v in vals:
                if kind in ("int", "float", "Int"):
                    self.e.assume(z3.And(v >= -BOUND, v <= BOUND))
                if kind == "str":
                    self.e.assume(z3.InRe(v, PRINTABLE))
        return vals, nulls

    def labels(self, name, n, distinct=False):
        lab = [self._var(f"{name}{i}", z3.IntSort()) for i in range(n)]
        if self.sym:
            for l in lab:
                self.e.assume(z3.And(l >= -BOUND, l <= BOUND))
            if distinct and n > 1:
                self.e.assume(z3.Distinct(*lab))
        return lab

    def _conc_cells(self, vals, nulls, kind):
        cv = []
        for v, nl in zip(vals, nulls):
            isnull = bool(self.vals.term(nl))
            if isnull:
                cv.append(float("nan") if kind == "float" else pd.NA if kind == "Int" else None)
            else:
                x = self.vals.term(v)
                cv.append(float(x) if kind == "float" else x)
        return cv

    def series(self, name, kind, n, nullable=None, labels=None, sname=None, distinct_labels=False, index_name=None):
        nullable = (kind in ("float", "str", "Int")) if nullable is None else nullable
        vals, nulls = self.cells(name, kind, n, nullable)
        lab = self.labels(labels, n, distinct_labels) if labels else list(range(n))
        if self.sym:
            return symframe.Series(vals, nulls=nulls, name=sname, dtype=DT[kind], index=symframe.Index(lab, name=index_name))
        idx = [self.vals.term(l) if z3.is_expr(l) else l for l in lab]
        return pd.Series(self._conc_cells(vals, nulls, kind), dtype=DT[kind], name=sname, index=pd.Index(idx, dtype="int64", name=index_name))

    def frame(self, cols, n, labels=None, distinct_labels=False, index_name=None, reverse=False):
        """cols: list of (label, kind[, nullable[, concrete values]]); duplicate labels allowed.  labels=None: pandas' default
        RangeIndex; reverse=True: the rows in reverse order (`df[::-1]`, a RangeIndex with step -1 when labels is None)."""
        lab = self.labels(labels, n, distinct_labels) if labels else list(range(n))
        data = []
        for ci, c in enumerate(cols):
            kind = c[1]
            nullable = (kind in ("float", "str", "Int")) if len(c) < 3 or c[2] is None else c[2]
            prefix = f"{c[0]}_" if [x[0] for x in cols].count(c[0]) == 1 else f"{c[0]}{ci}_"
            if len(c) > 3 and c[3] is not None:
                conc = list(c[3])[:n]
                vals = [symframe.lift_cell(x, kind) for x in conc]
                nulls = [z3.BoolVal(False)] * n
            else:
                vals, nulls = self.cells(prefix, kind, n, nullable)
            data.append((c[0], kind, vals, nulls))
        if self.sym:
            if reverse:
                lab = lab[::-1]
                data = [(k, kind, vals[::-1], nulls[::-1]) for k, kind, vals, nulls in data]
            idx = symframe.Index(lab, name=index_name)
            return symframe.DataFrame([(k, symframe.Series(vals, nulls=nulls, dtype=DT[kind], index=idx.copy(), kind=("object" if kind == "object" else None)))
                                       for k, kind, vals, nulls in data], index=idx)
        if labels is None and index_name is None:
            idx = pd.RangeIndex(n)  # what a frame built without an index has
        else:
            idx = pd.Index([self.vals.term(l) if z3.is_expr(l) else l for l in lab], dtype="int64", name=index_name)
        sers = [pd.Series(self._conc_cells(vals, nulls, kind), dtype=DT[kind], index=idx, name=k) for k, kind, vals, nulls in data]
        if not sers:
            return pd.DataFrame(index=idx)
        df = pd.concat(sers, axis=1)
        df.columns = [k for k, *_ in data]
        return df.iloc[::-1] if reverse else df

    def mi_frame(self, cols, n, levels, extra_filtered=0):
        """frame with a MultiIndex; levels: list of (level name, variable prefix) of int labels.  extra_filtered: that many more rows
        are built and then sliced off again (their level values stay behind in the index as unused levels)"""
        keep, n = n, n + extra_filtered
        labs = [self.labels(p, n) for _, p in levels]
        data = []
        for c in cols:
            kind = c[1]
            vals, nulls = self.cells(f"{c[0]}_", kind, n, kind in ("float", "str"))
            data.append((c[0], kind, vals, nulls))
        names = [nm for nm, _ in levels]
        if self.sym:
            idx = symframe.MultiIndex(labs, names)
            out = symframe.DataFrame([(k, symframe.Series(vals, nulls=nulls, dtype=DT[kind], index=idx.copy())) for k, kind, vals, nulls in data], index=idx)
            return out.head(keep) if extra_filtered else out
        arrays = [[self.vals.term(l) for l in lv] for lv in labs]
        idx = pd.MultiIndex.from_arrays([pd.array(a, dtype="int64") for a in arrays], names=names) if n else pd.MultiIndex.from_arrays([pd.array([], dtype="int64") for _ in arrays], names=names)
        out = pd.DataFrame({k: pd.Series(self._conc_cells(vals, nulls, kind), dtype=DT[kind], index=idx) for k, kind, vals, nulls in data}, index=idx)
        return out.iloc[:keep] if extra_filtered else out


    # ------------------------------------------------------------------ polars containers (stage 2 of DESIGN.md 2.3)
    def plframe(self, cols, n, lazy=False, nan=False, rid=False, missing_as_nan=False):
        """cols: list of (name, kind[, nullable]); kind in int/float/str/bool.  Symbolic mode: a sympl frame; concrete mode: a
        real polars frame with the model's values.  nan=True adds a NaN flag per float cell (distinct from null)."""
        import polars as pl

        import sympl

        PLDT = {"int": pl.Int64, "float": pl.Float64, "str": pl.String, "bool": pl.Boolean}
        data = {}
        for c in cols:
            name, kind = c[0], c[1]
            nullable = True if len(c) < 3 or c[2] is None else c[2]
            vals, nulls = self.cells(f"{name}_", kind, n, nullable)
            nans = [self._var(f"{name}_{i}_nan", z3.BoolSort()) for i in range(n)] if (nan and kind == "float") else None
            if missing_as_nan and kind == "float":
                # the table as pl.from_pandas hands it over: a missing float cell is NaN, not null (same variable as the pandas null flag)
                nans, nulls = nulls, [z3.BoolVal(False)] * n
            if self.sym:
                data[name] = sympl.Col(vals, nulls, PLDT[kind], nans)
            else:
                cv = []
                for i, (x, nl) in enumerate(zip(vals, nulls)):
                    if bool(self.vals.term(nl)):
                        cv.append(None)
                    elif nans is not None and bool(self.vals.term(nans[i])):
                        cv.append(float("nan"))
                    else:
                        t = self.vals.term(x)
                        cv.append(float(t) if kind == "float" else t)
                data[name] = pl.Series(name, cv, dtype=PLDT[kind])
        if rid:  # concrete row identifiers: lets the concrete side name the input position of every surviving row
            data["_rid"] = sympl.Col([z3.IntVal(i) for i in range(n)], [z3.BoolVal(False)] * n, pl.Int64) if self.sym else pl.Series("_rid", list(range(n)), dtype=pl.Int64)
        if self.sym:
            sympl.set_mode(True)
            return (sympl.LazyFrame if lazy else sympl.DataFrame)(data, present=[z3.BoolVal(True)] * n)
        sympl.set_mode(False)
        df = pl.DataFrame(data) if data else pl.DataFrame()
        return df.lazy() if lazy else df


# ------------------------------------------------------------------ observations (comparable across modes)
def norm_val(x):
    if x is None:
        return None
    if isinstance(x, (bool, np.bool_)):
        return bool(x)
    if isinstance(x, (int, float, np.integer, np.floating)):
        f = float(x)
        return None if math.isnan(f) else round(f, 9)
    if x is pd.NA or x is pd.NaT:
        return None
    if isinstance(x, dict):  # a dataframe-level check's failure case: {column: value} of one row
        return "dict" + str(sorted((str(k), norm_val(v)) for k, v in x.items()))
    if isinstance(x, str) and type(x) is not str:
        return str.__str__(x)
    return str(x)


def norm_case(x):
    """failure case value; the rendered text of an exception raised inside a check is message text (outside the claim)"""
    x = norm_val(x)
    if x == "<?bool>":
        return 0.0  # the rendered placeholder of a symbolic scalar check output: it is listed as a failure case only when it is False
    if isinstance(x, bool):
        return float(x)  # pandas upcasts a boolean failure case that shares the column with numbers (False -> 0.0)
    if isinstance(x, str):
        import re as _re

        m = _re.match(r"^([A-Za-z_][A-Za-z0-9_]*)\(", x)
        if m and m.group(1).endswith(("Error", "Exception", "Injected")):
            return m.group(1) + "(...)"
    return x


def norm_idx(x):
    """row label of a failure case; MultiIndex labels are rendered tuples (text is outside the claim: compare numerically)"""
    x = norm_val(x)
    if isinstance(x, str) and x.startswith("(") and x.endswith(")"):
        try:
            return str(tuple(float(p) for p in x[1:-1].split(",") if p.strip()))
        except ValueError:
            return x
    return x


def _evv(vals: Vals, t):
    return vals.term(t)


def snap_shim(obj, vals: Vals):
    """present rows of a shim Series/DataFrame under an assignment -> list of (label, {col: value})"""
    if isinstance(obj, symframe.Series):
        obj = symframe.DataFrame([(obj.name, obj)], present=obj.present, index=obj.index.copy())
    rows = []
    for i, p in enumerate(obj.present):
        if _evv(vals, p):
            if isinstance(obj.index, symframe.MultiIndex):
                lab = str(tuple(norm_val(_evv(vals, lv[i])) for lv in obj.index._lv))
            else:
                lab = norm_val(_evv(vals, obj.index.labels[i])) if obj.index.labels[i] is not None else None
            rows.append((lab, [(str(k), (None if _evv(vals, c.nulls[i]) else norm_val(_evv(vals, c.vals[i])))) for k, c in obj._cols]))
    return rows


def snap_real(obj):
    if isinstance(obj, pd.Series):
        obj = obj.to_frame(name=obj.name)
    out = []
    for pos in range(len(obj)):
        idx = obj.index[pos]
        lab = str(tuple(norm_val(x) for x in idx)) if isinstance(idx, tuple) else norm_val(idx)
        out.append((lab, [(str(k), norm_val(obj.iloc[pos, j])) for j, k in enumerate(obj.columns)]))
    return out


def fc_rows_shim(fc, vals: Vals):
    cols = {k: c for k, c in fc._cols}
    rows = []
    for r, p in enumerate(fc.present):
        if _evv(vals, p):
            g = lambda k: None if _evv(vals, cols[k].nulls[r]) else norm_val(_evv(vals, cols[k].vals[r]))  # noqa: E731
            rows.append((str(cols["schema_context"].vals[r]), str(cols["column"].vals[r]), str(cols["check"].vals[r]).split("(")[0],
                         norm_idx(g("index")), norm_case(g("failure_case"))))
    return sorted(rows, key=repr)


def fc_rows_real(fc):
    return sorted(((str(r.schema_context), str(r.column), str(r.check).split("(")[0], norm_idx(r["index"]), norm_case(r.failure_case))
                   for _, r in fc.iterrows()), key=repr)


DOCUMENTED_USAGE_ERRORS = ("SchemaDefinitionError", "SchemaInitError")


def outcome(fn):
    """Run fn() (a real pandera call); classify.  Anything outside the documented channel is kind 'leak:<Type>'."""
    import pandera as pa

    with warnings.catch_warnings(record=True) as w:
        warnings.simplefilter("always")
        try:
            out = fn()
            return {"kind": "accept", "out": out,
                    "warnings": len([x for x in w if issubclass(x.category, pa.errors.SchemaWarning)])}
        except pa.errors.SchemaErrors as exc:
            return {"kind": "SchemaErrors", "reasons": sorted(str(e.reason_code).split(".")[-1] for e in exc.schema_errors),
                    "counts": {str(k).split(".")[-1]: v for k, v in dict(exc.error_counts).items()},
                    "fc": exc.failure_cases, "exc": exc}
        except pa.errors.SchemaError as exc:
            return {"kind": "SchemaError", "reason": str(exc.reason_code).split(".")[-1], "exc": exc}
        except (pa.errors.SchemaDefinitionError, pa.errors.SchemaInitError) as exc:
            return {"kind": type(exc).__name__}
        except Exception as exc:  # noqa: BLE001 - classification of leaked exceptions is the point (C06)
            return {"kind": "leak:" + type(exc).__name__, "msg": str(exc)[:200], "exc": exc}


def comparable(o, vals: Vals | None = None):
    """observation -> plain python structure (evaluating shim parts under the assignment)."""
    if o is None:
        return None
    d = {"kind": o["kind"]}
    if o["kind"] == "accept":
        out = o["out"]
        if _is_pl(out):
            d["out"] = snap_pl(out, vals)
        elif isinstance(out, (symframe.Series, symframe.DataFrame)):
            d["out"] = snap_shim(out, vals)
        elif isinstance(out, (pd.Series, pd.DataFrame)):
            d["out"] = snap_real(out)
        else:
            d["out"] = repr(type(out).__name__)
        d["warnings"] = o.get("warnings", 0)
    elif o["kind"] == "SchemaErrors":
        d["reasons"] = o["reasons"]
        fc = o["fc"]
        if _is_pl(fc):
            d["fc"] = fc_rows_pl(fc, vals, noindex=bool(o.get("_noindex")))
        elif isinstance(fc, symframe.DataFrame):
            d["fc"] = fc_rows_shim(fc, vals)
        elif isinstance(fc, pd.DataFrame):
            d["fc"] = fc_rows_real(fc)
    elif o["kind"] == "SchemaError":
        d["reason"] = o["reason"]
    return d


# ------------------------------------------------------------------ polars observations
def _is_pl(x):
    import polars as pl

    import sympl

    return isinstance(x, (pl.DataFrame, pl.LazyFrame, sympl.DataFrame, sympl.LazyFrame))


def pl_kind(x):
    """container kind, the same word for the shim and the real class"""
    return type(x).__name__


def _pl_num(x):
    if isinstance(x, str) and (x.startswith("{") or x == "<struct>"):
        return "<struct>"  # JSON text of a multi-column failure case: outside the claim
    if x in ("true", "false"):
        return float(x == "true")
    if isinstance(x, str):
        try:
            return round(float(x), 9)
        except ValueError:
            return x
    return x


def snap_pl(obj, vals: Vals | None = None):
    """rows of a polars frame (shim under an assignment, or real) -> {kind, columns, dtypes, rows | collect_error}"""
    import polars as pl

    import sympl

    if isinstance(obj, (sympl.LazyFrame, sympl.DataFrame)):
        d = {"kind": pl_kind(obj), "columns": list(obj.cols), "dtypes": [str(c.dtype) for c in obj.cols.values()]}
        if any(bool(_evv(vals, e)) for e in obj._errors):
            d["collect_error"] = True
            return d
        rows = []
        for i, p in enumerate(obj.present):
            if _evv(vals, p):
                row = []
                for k, c in obj.cols.items():
                    if _evv(vals, c.nulls[i]):
                        row.append(None)
                    elif c.nans is not None and _evv(vals, c.nans[i]):
                        row.append("NaN")
                    else:
                        row.append(norm_val(_evv(vals, c.vals[i])))
                rows.append(row)
        d["rows"] = rows
        return d
    d = {"kind": pl_kind(obj)}
    try:
        df = obj.collect() if isinstance(obj, pl.LazyFrame) else obj
    except Exception:  # noqa: BLE001 - a lazily failing cast surfaces at collect()
        sch = obj.collect_schema()
        d.update(columns=list(sch.names()), dtypes=[str(x) for x in sch.dtypes()], collect_error=True)
        return d
    d.update(columns=list(df.columns), dtypes=[str(x) for x in df.dtypes])
    d["rows"] = [["NaN" if isinstance(x, float) and x != x else norm_val(x) for x in r] for r in df.rows()]
    return d


def fc_rows_pl(fc, vals: Vals | None = None, noindex=False):
    """polars failure-case table -> sorted rows (schema_context, column, check, index, failure_case); rendered text of
    numbers is compared numerically"""
    import sympl

    rows = []
    if isinstance(fc, (sympl.DataFrame, sympl.LazyFrame)):
        cols = fc.cols

        def g(k, r):
            c = cols[k]
            if _evv(vals, c.nulls[r]):
                return None
            if c.nans is not None and _evv(vals, c.nans[r]):
                return "NaN"
            return norm_val(_evv(vals, c.vals[r]))

        for r, p in enumerate(fc.present):
            if _evv(vals, p):
                rows.append((str(g("schema_context", r)), str(g("column", r)), str(g("check", r)).split("(")[0],
                             None if noindex else g("index", r), _pl_num(norm_case(g("failure_case", r)))))
    else:
        for r in fc.iter_rows(named=True):
            rows.append((str(r["schema_context"]), str(r["column"]), str(r["check"]).split("(")[0], None if noindex else norm_val(r["index"]),
                         _pl_num(norm_case(r["failure_case"]))))
    return sorted(rows, key=repr)


def jsonable(x):
    if isinstance(x, dict):
        return {str(k): jsonable(v) for k, v in x.items()}
    if isinstance(x, (list, tuple)):
        return [jsonable(v) for v in x]
    if isinstance(x, (str, int, float, bool)) or x is None:
        if isinstance(x, float) and (math.isnan(x) or math.isinf(x)):
            return str(x)
        if isinstance(x, str) and type(x) is not str:
            return str.__str__(x)
        return x
    if isinstance(x, (np.integer,)):
        return int(x)
    if isinstance(x, (np.floating,)):
        return float(x)
    if isinstance(x, np.bool_):
        return bool(x)
    return repr(x)[:200]


# ------------------------------------------------------------------ snapshots and structural equality (both modes)
def snapshot(obj):
    """Deep structural snapshot.  shim: term lists (terms are immutable); real pandas: a deep copy."""
    if isinstance(obj, symframe.Series):
        return ("S", [("", list(obj.vals), list(obj.nulls), str(obj.dtype))], list(obj.present), _idx_snap(obj.index), obj.name)
    if isinstance(obj, symframe.DataFrame):
        return ("D", [(k, list(c.vals), list(c.nulls), str(c.dtype)) for k, c in obj._cols], list(obj.present), _idx_snap(obj.index), None)
    if isinstance(obj, (pd.Series, pd.DataFrame)):
        return ("R", obj.copy(deep=True), obj.index.copy(deep=True))
    raise ModelGap(f"snapshot of {type(obj).__name__}")


def _idx_snap(idx):
    if isinstance(idx, symframe.MultiIndex):
        return ("MI", [list(l) for l in idx._lv], list(idx.names), str([str(d) for d in idx.dtypes]))
    return ("I", [list(idx.labels)], [idx.name], str(idx.dtype))


def _tz(x):
    return x if z3.is_expr(x) else None


def equal_to_snapshot(v: V, obj, snap, values_only=False, subset=False):
    """z3 term (sym) / bool (conc): obj is structurally identical to the snapshot — same rows present, same cell
    values and null flags, same labels, and (unless values_only) same names/dtypes/column order."""
    if snap[0] == "R":
        ref = snap[1]
        if type(obj) is not type(ref):
            return False
        if values_only:
            a = obj.reset_index(drop=True)
            b = ref.reset_index(drop=True)
            if isinstance(a, pd.DataFrame):
                if list(a.columns) != list(b.columns):
                    return False
                return bool(all(_col_equal(a.iloc[:, j], b.iloc[:, j]) for j in range(a.shape[1])) and list(obj.index) == list(ref.index))
            return bool(_col_equal(a, b) and list(obj.index) == list(ref.index))
        if isinstance(ref, pd.DataFrame):
            return bool(obj.equals(ref) and list(obj.columns) == list(ref.columns) and list(map(str, obj.dtypes)) == list(map(str, ref.dtypes))
                        and obj.index.equals(snap[2]) and _real_idx_sig(obj.index) == _real_idx_sig(snap[2]))
        return bool(obj.equals(ref) and obj.name == ref.name and str(obj.dtype) == str(ref.dtype) and obj.index.equals(snap[2])
                    and _real_idx_sig(obj.index) == _real_idx_sig(snap[2]))
    kind, cols, present, idx, name = snap
    if kind == "S":
        if not isinstance(obj, symframe.Series):
            return v.holds(False)
        ocols = [("", obj.vals, obj.nulls, str(obj.dtype))]
        oname = obj.name
    else:
        if not isinstance(obj, symframe.DataFrame):
            return v.holds(False)
        ocols = [(k, c.vals, c.nulls, str(c.dtype)) for k, c in obj._cols]
        oname = None
    if [c[0] for c in ocols] != [c[0] for c in cols] or len(obj.present) != len(present):
        return v.holds(False)
    if not values_only and ([c[3] for c in ocols] != [c[3] for c in cols] or oname != name):
        return v.holds(False)
    oidx = _idx_snap(obj.index)
    if oidx[0] != idx[0] or len(oidx[1]) != len(idx[1]) or (not values_only and (oidx[2] != idx[2] or oidx[3] != idx[3])):
        return v.holds(False)
    terms = []
    for i in range(len(present)):
        if not subset:
            terms.append(obj.present[i] == present[i])
        else:
            terms.append(z3.Implies(obj.present[i], present[i]))
        row = []
        for (_, xs, ns, _), (_, ys, ms, _) in zip(ocols, cols):
            if z3.is_expr(xs[i]) and z3.is_expr(ys[i]) and xs[i].sort() != ys[i].sort():
                if z3.is_int(xs[i]) and z3.is_real(ys[i]) or z3.is_real(xs[i]) and z3.is_int(ys[i]):
                    row.append(z3.And(ns[i] == ms[i], z3.Or(ns[i], xs[i] == ys[i])))
                else:
                    return v.holds(False)
            else:
                row.append(z3.And(ns[i] == ms[i], z3.Or(ns[i], xs[i] == ys[i])))
        for la, lb in zip(oidx[1], idx[1]):
            row.append(la[i] == lb[i])
        terms.append(z3.Implies(obj.present[i] if subset else present[i], z3.And(*row) if row else z3.BoolVal(True)))
    return v.holds(z3.And(*terms) if terms else z3.BoolVal(True))


def _real_idx_sig(idx):
    if isinstance(idx, pd.MultiIndex):
        return (list(idx.names), [str(idx.get_level_values(i).dtype) for i in range(idx.nlevels)])
    return (list(idx.names), str(idx.dtype))


def _col_equal(a, b):
    if len(a) != len(b):
        return False
    for x, y in zip(a.tolist(), b.tolist()):
        xn, yn = _isnull(x), _isnull(y)
        if xn != yn:
            return False
        if not xn and not (x == y):
            return False
    return True


def _isnull(x):
    try:
        return bool(pd.isna(x))
    except (TypeError, ValueError):
        return False


# ------------------------------------------------------------------ contract stub for sample() on the real side
class StubSampleFrame(pd.DataFrame):
    """real DataFrame whose sample(n, random_state) returns the rows chosen by the solver model (the nondeterministic
    stub of DESIGN.md section 3): any n distinct rows, the same rows for the same (n, random_state)."""
    _metadata = ["_picks"]

    @property
    def _constructor(self):
        return StubSampleFrame

    @property
    def _constructor_sliced(self):
        return StubSampleSeries

    def sample(self, n=None, random_state=None, **kw):
        picks = (getattr(self, "_picks", None) or {}).get(str(random_state))
        if picks is None or len(picks) != len(self):
            return pd.DataFrame.sample(self, n=n, random_state=random_state, **kw)
        if sum(picks) != n:
            raise ValueError("Cannot take a larger sample than population when 'replace=False'")
        return self.iloc[[i for i, p in enumerate(picks) if p]]


class StubSampleSeries(pd.Series):
    _metadata = ["_name", "_picks"]

    @property
    def _constructor(self):
        return StubSampleSeries

    @property
    def _constructor_expanddim(self):
        return StubSampleFrame

    def sample(self, n=None, random_state=None, **kw):
        picks = (getattr(self, "_picks", None) or {}).get(str(random_state))
        if picks is None or len(picks) != len(self):
            return pd.Series.sample(self, n=n, random_state=random_state, **kw)
        if sum(picks) != n:
            raise ValueError("Cannot take a larger sample than population when 'replace=False'")
        return self.iloc[[i for i, p in enumerate(picks) if p]]


def with_sample_stub(obj, vals: Vals, n_rows):
    """wrap a real object so that sample() follows the model's picks (variables sample!<random_state>!<i>)"""
    picks = {}
    for name, val in vals.items():
        if name.startswith("sample!"):
            _, rs, i = name.split("!")
            picks.setdefault(rs, {})[int(i)] = bool(val)
    table = {rs: [d.get(i, False) for i in range(n_rows)] for rs, d in picks.items()}
    out = StubSampleFrame(obj) if isinstance(obj, pd.DataFrame) else StubSampleSeries(obj)
    out._picks = table
    from pandera.api.checks import Check

    for disp in Check.CHECK_FUNCTION_REGISTRY.values():  # built-in checks dispatch on the exact type
        reg = disp._function_registry
        if pd.Series in reg:
            reg[StubSampleSeries] = reg[pd.Series]
        if pd.DataFrame in reg:
            reg[StubSampleFrame] = reg[pd.DataFrame]
    return out


class pl_sample_stub:
    """context manager for the concrete replay: polars' DataFrame.sample(n, seed=s) returns the rows the solver model picked
    (variables plsample!<seed>!<i>) — the contract stub of sympl.DataFrame.sample on the real side"""

    def __init__(self, vals):
        self.picks = {}
        for name, val in (vals or {}).items():
            if str(name).startswith("plsample!"):
                _, seed, i = name.split("!")
                self.picks.setdefault(seed, {})[int(i)] = bool(val)

    def __enter__(self):
        import polars as pl

        self._orig = pl.DataFrame.sample
        picks, orig = self.picks, self._orig

        def sample(df, n=None, *, fraction=None, with_replacement=False, shuffle=False, seed=None):
            table = picks.get(str(seed))
            if table is None or n is None:
                return orig(df, n, fraction=fraction, with_replacement=with_replacement, shuffle=shuffle, seed=seed)
            rows = [i for i in range(df.height) if table.get(i, False)]
            if len(rows) != n:
                return orig(df, n, fraction=fraction, with_replacement=with_replacement, shuffle=shuffle, seed=seed)
            return df[rows]

        pl.DataFrame.sample = sample
        return self

    def __exit__(self, *a):
        import polars as pl

        pl.DataFrame.sample = self._orig
        return False
