"""CrossHair conditions over the REAL pandera.config._config_from_env_vars with `os` stubbed by a symbolic mapping.
Run as: crosshair check --report_all --per_condition_timeout T ch_env.py:LINE (one process per condition)."""
import types
from typing import Optional

from pandera import config as cfg

MAXLEN = 5


def _run(name: str, v: Optional[str]):
    env = {}
    if v is not None:
        env[name] = v
    real = cfg.os
    cfg.os = types.SimpleNamespace(environ=env)
    try:
        return cfg._config_from_env_vars()
    finally:
        cfg.os = real


def env_enabled(v: Optional[str]) -> bool:
    """
    pre: v is None or len(v) <= 5
    post: (_ == False) if v == "False" else (_ == True if (v is None or v == "True") else True)
    """
    return _run("PANDERA_VALIDATION_ENABLED", v).validation_enabled


def env_enabled_twin(v: Optional[str]) -> bool:
    """
    pre: v is None or len(v) <= 5
    post: False
    """
    return _run("PANDERA_VALIDATION_ENABLED", v).validation_enabled


def env_cache(v: Optional[str]) -> bool:
    """
    pre: v is None or len(v) <= 5
    post: (_ == True) if v == "True" else (_ == False if (v is None or v == "False") else True)
    """
    return _run("PANDERA_CACHE_DATAFRAME", v).cache_dataframe


def env_cache_twin(v: Optional[str]) -> bool:
    """
    pre: v is None or len(v) <= 5
    post: False
    """
    return _run("PANDERA_CACHE_DATAFRAME", v).cache_dataframe


def env_keep(v: Optional[str]) -> bool:
    """
    pre: v is None or len(v) <= 5
    post: (_ == True) if v == "True" else (_ == False if (v is None or v == "False") else True)
    """
    return _run("PANDERA_KEEP_CACHED_DATAFRAME", v).keep_cached_dataframe


def env_keep_twin(v: Optional[str]) -> bool:
    """
    pre: v is None or len(v) <= 5
    post: False
    """
    return _run("PANDERA_KEEP_CACHED_DATAFRAME", v).keep_cached_dataframe


def env_depth(v: Optional[str]) -> Optional[str]:
    """
    pre: v is None or v in ("SCHEMA_ONLY", "DATA_ONLY", "SCHEMA_AND_DATA")
    post: _ == v
    """
    d = _run("PANDERA_VALIDATION_DEPTH", v).validation_depth
    return None if d is None else d.value


def env_depth_twin(v: Optional[str]) -> Optional[str]:
    """
    pre: v is None or v in ("SCHEMA_ONLY", "DATA_ONLY", "SCHEMA_AND_DATA")
    post: False
    """
    d = _run("PANDERA_VALIDATION_DEPTH", v).validation_depth
    return None if d is None else d.value
