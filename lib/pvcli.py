import os
import sys


def main():
    a = sys.argv[1:]
    if not a:
        print("usage: vcheck <ID> quick|thorough [template-regex] | vcheck replay <file>")
        return 2
    import pvrun

    if a[0] == "replay":
        return pvrun.replay_file(a[1])
    pid = a[0].upper()
    tier = a[1] if len(a) > 1 else os.environ.get("VERIF_TIER", "quick")
    only = a[2] if len(a) > 2 else None
    return pvrun.run_check(pid, tier, only=only)


if __name__ == "__main__":
    sys.exit(main())
