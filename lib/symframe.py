"""symframe — the pandas API over z3 terms (fixed shape, masked rows).  Prototype v2 (design-phase scratch).

Module name and class names matter: pandera gates on `cls.__name__ in PANDAS_LIKE_CLS_NAMES` and dispatches on the
fully qualified class name (`symframe.Series`).
"""
from __future__ import annotations

import re as _re

import numpy as np
import pandas as real_pd
import z3

from symx import (ModelGap, SymBool, SymInt, SymReal, SymStr, eng, is_sym, lift_bool, lift_num, lift_str, sb,
                  wrap_num)

T = z3.BoolVal(True)
F = z3.BoolVal(False)


def zor(xs):
    xs = list(xs)
    return z3.Or(*xs) if xs else F


def zand(xs):
    xs = list(xs)
    return z3.And(*xs) if xs else T


KIND_OF_DTYPE = {"i": "int", "u": "int", "f": "float", "b": "bool", "O": "str", "U": "str", "M": "int", "m": "int"}


def kind_of(dtype) -> str:
    return KIND_OF_DTYPE.get(getattr(dtype, "kind", "O"), "object")


def lift_cell(v, kind):
    if kind in ("int", "float"):
        return lift_num(v)
    if kind == "str":
        return lift_str(v)
    if kind == "bool":
        return lift_bool(v)
    return v


def wrap_cell(z, kind):
    if not z3.is_expr(z):
        return z
    if z3.is_bool(z):
        return sb(z)
    if z3.is_int(z) or z3.is_real(z):
        return wrap_num(z)
    if z3.is_string(z):
        return SymStr(z)
    return z


class _Gap:
    _PROBES = ("dask", "pandera", "_typ", "__array_interface__", "__array_struct__", "__array__", "__len__")

    def __getattr__(self, name):
        if (name.startswith("__") and name.endswith("__")) or name in self._PROBES:
            raise AttributeError(name)
        raise ModelGap(f"{type(self).__name__}.{name} not modelled")


class _PanderaAccessor:
    """pandera.accessors.pandas_accessor.PanderaAccessor: the schema an object was last validated with, per OBJECT (a copy or
    any derived frame starts without one)"""

    def __init__(self, obj):
        self._pandas_obj, self._schema = obj, None

    def add_schema(self, schema):
        self._schema = schema
        return self._pandas_obj

    @property
    def schema(self):
        return self._schema


class _WithAccessor(_Gap):
    @property
    def pandera(self):
        acc = self.__dict__.get("_pandera_accessor")
        if acc is None:
            acc = _PanderaAccessor(self)
            object.__setattr__(self, "_pandera_accessor", acc)
        return acc




# =========================================================================== regex -> z3
ALL = z3.Full(z3.ReSort(z3.StringSort()))
ANYCH = z3.AllChar(z3.ReSort(z3.StringSort()))
EPS = z3.Re("")


def _cat(parts):
    parts = [p for p in parts if p is not None]
    if not parts:
        return EPS
    return parts[0] if len(parts) == 1 else z3.Concat(*parts)


_ICASE = [False]  # set while a pattern compiled with re.IGNORECASE is being translated (ASCII letters only)


def _lit(ch):
    if _ICASE[0] and ch.isascii() and ch.isalpha():
        return z3.Union(z3.Re(ch.lower()), z3.Re(ch.upper()))
    return z3.Re(ch)


def _range(a, b):
    r = z3.Range(a, b)
    if _ICASE[0] and a.isascii() and b.isascii():
        extra = []
        for lo, hi, f in (("a", "z", str.upper), ("A", "Z", str.lower)):
            x, y = max(a, lo), min(b, hi)
            if x <= y:
                extra.append(z3.Range(f(x), f(y)))
        if extra:
            return z3.Union(r, *extra)
    return r


def _class_item(op, av):
    import re._constants as C  # type: ignore

    if op is C.LITERAL:
        return _lit(chr(av))
    if op is C.RANGE:
        return _range(chr(av[0]), chr(av[1]))
    if op is C.CATEGORY:
        if av is C.CATEGORY_DIGIT:
            return z3.Range("0", "9")
        if av is C.CATEGORY_WORD:
            return z3.Union(z3.Range("a", "z"), z3.Range("A", "Z"), z3.Range("0", "9"), z3.Re("_"))
        if av is C.CATEGORY_SPACE:
            return z3.Union(z3.Re(" "), z3.Re("\t"))
    raise ModelGap(f"regex class item {op}")


def _node(op, av):
    import re._constants as C  # type: ignore

    if op is C.LITERAL:
        return _lit(chr(av))
    if op is C.ANY:
        return ANYCH
    if op is C.NOT_LITERAL:
        return z3.Intersect(ANYCH, z3.Complement(_lit(chr(av))))
    if op is C.IN:
        neg = av and av[0][0] is C.NEGATE
        items = [_class_item(o, a) for o, a in (av[1:] if neg else av)]
        u = items[0] if len(items) == 1 else z3.Union(*items)
        return z3.Intersect(ANYCH, z3.Complement(u)) if neg else u
    if op is C.BRANCH:
        alts = [_seq(list(a)) for a in av[1]]
        return alts[0] if len(alts) == 1 else z3.Union(*alts)
    if op is C.SUBPATTERN:
        return _seq(list(av[3]))
    if op in (C.MAX_REPEAT, C.MIN_REPEAT):
        lo, hi, sub = av
        r = _seq(list(sub))
        if hi is C.MAXREPEAT:
            return z3.Star(r) if lo == 0 else z3.Plus(r) if lo == 1 else z3.Concat(z3.Loop(r, lo, lo), z3.Star(r))
        if lo == 0 and hi == 1:
            return z3.Option(r)
        return z3.Loop(r, lo, hi)
    raise ModelGap(f"regex node {op}")


def _seq(items):
    return _cat([_node(op, av) for op, av in items])


def regex_language(pattern, mode: str, flags: int = 0):
    """z3 regex over the WHOLE string for `mode` in {'match','fullmatch','search'}; anchors honoured per top-level
    alternative (which is what makes '^a|b' differ from '^(?:a|b)').  `pattern` may be a compiled pattern: its flags count
    (re.IGNORECASE is modelled; any other non-default flag is a model gap)."""
    import re._constants as C  # type: ignore
    import re._parser as P  # type: ignore

    if isinstance(pattern, _re.Pattern):
        flags, pattern = flags | pattern.flags, pattern.pattern
    flags &= ~_re.UNICODE
    if flags & ~_re.IGNORECASE:
        raise ModelGap(f"regex flags {flags}")
    _ICASE[0] = bool(flags & _re.IGNORECASE)
    try:
        return _regex_language(pattern, mode, C, P)
    finally:
        _ICASE[0] = False


def _regex_language(pattern, mode, C, P):

    BEG, END = (C.AT_BEGINNING, C.AT_BEGINNING_STRING), (C.AT_END, C.AT_END_STRING)

    def expand(seq):
        """alternatives of the pattern with groups that span the whole pattern (up to outer anchors) opened up, so that
        anchors inside such groups become leading/trailing anchors of an alternative: ^(?:^a|b) -> ^^a | ^b"""
        seq = list(seq)
        lead, trail = [], []
        while seq and seq[0][0] is C.AT and seq[0][1] in BEG:
            lead.append(seq.pop(0))
        while seq and seq[-1][0] is C.AT and seq[-1][1] in END:
            trail.insert(0, seq.pop())
        if len(seq) == 1 and seq[0][0] is C.SUBPATTERN:
            return [lead + e + trail for e in expand(list(seq[0][1][3]))]
        if len(seq) == 1 and seq[0][0] is C.BRANCH:
            return [lead + e + trail for alt in seq[0][1][1] for e in expand(list(alt))]
        return [lead + seq + trail]

    out = []
    for alt in expand(list(P.parse(pattern))):
        start = bool(alt) and alt[0][0] is C.AT and alt[0][1] in BEG
        end = bool(alt) and alt[-1][0] is C.AT and alt[-1][1] in END
        core = list(alt)
        while core and core[0][0] is C.AT and core[0][1] in BEG:
            core.pop(0)
        while core and core[-1][0] is C.AT and core[-1][1] in END:
            core.pop()
        if any(op is C.AT for op, _ in core):
            raise ModelGap("inner anchor")
        r = _seq(core)
        pre = None if (start or mode in ("match", "fullmatch")) else ALL
        post = None if (end or mode == "fullmatch") else ALL
        out.append(_cat([pre, r, post]))
    return out[0] if len(out) == 1 else z3.Union(*out)


# =========================================================================== Index
class Index(_Gap):
    """Row index.  labels: z3 terms (Int) — IntVal when concrete."""

    def __init__(self, labels, present=None, name=None, dtype=None):
        self.labels = [z3.IntVal(l) if isinstance(l, (int, np.integer)) else l for l in labels]
        self.present = list(present) if present is not None else [T] * len(self.labels)
        self.name = name
        self.dtype = dtype if dtype is not None else np.dtype("int64")

    def copy(self):
        return Index(self.labels, self.present, self.name, self.dtype)

    def __getitem__(self, key):
        if isinstance(key, (Series, BoolArray)) and not isinstance(self, MultiIndex):  # boolean mask
            kp = key.present if isinstance(key, Series) else [T] * len(key.vals)
            newp = [z3.And(p, q, m) for p, q, m in zip(self.present, kp, key.vals)]
            return Index(self.labels, newp, self.name, self.dtype)
        raise ModelGap("Index.__getitem__")

    def with_present(self, present):
        return Index(self.labels, present, self.name, self.dtype)

    @property
    def names(self):
        return [self.name]

    @property
    def nlevels(self):
        return 1

    def equals(self, other):
        if not isinstance(other, Index) or len(other.labels) != len(self.labels):
            return False
        return sb(zand(z3.And(p == q, z3.Implies(p, a == b)) for a, b, p, q in zip(self.labels, other.labels, self.present, other.present)))

    def duplicated(self, keep="first"):
        n = len(self.labels)
        out = []
        for i in range(n):
            js = range(0, i) if keep == "first" else range(i + 1, n) if keep == "last" else [j for j in range(n) if j != i]
            out.append(zor(z3.And(self.present[j], self.labels[i] == self.labels[j]) for j in js))
        return BoolArray(out)

    def isin(self, values):
        if isinstance(values, Series):
            return BoolArray([zor(z3.And(p, z3.Not(nl), v == lab) for v, nl, p in zip(values.vals, values.nulls, values.present)
                                  if z3.is_expr(v) and v.sort() == lab.sort()) for lab in self.labels])
        if isinstance(values, Index) and not isinstance(values, MultiIndex) and not isinstance(self, MultiIndex):
            zl = lambda x: z3.IntVal(x) if isinstance(x, int) and not isinstance(x, bool) else x  # noqa: E731
            mine, theirs = [zl(x) for x in self.labels], [zl(x) for x in values.labels]
            return BoolArray([zor(z3.And(p, v == lab) for v, p in zip(theirs, values.present) if z3.is_expr(v) and z3.is_expr(lab) and v.sort() == lab.sort())
                              for lab in mine])
        raise ModelGap("Index.isin(non-series)")

    def to_series(self):
        return Series(self.labels, present=self.present, index=self.copy(), name=self.name, dtype=self.dtype)

    def isna(self):
        return self.to_series().isna()

    def min(self):
        return self.to_series().min()

    def max(self):
        return self.to_series().max()

    def astype(self, t):
        return Index(self.to_series().astype(t).vals, self.present, self.name, np.dtype(t) if not isinstance(t, np.dtype) else t)

    @property
    def array(self):
        return self


class MultiIndex(Index):
    def __init__(self, levels, names, present=None, dtypes=None):
        self._lv = [[z3.IntVal(l) if isinstance(l, (int, np.integer)) else l for l in lv] for lv in levels]
        self._names = list(names)
        n = len(self._lv[0])
        self.present = list(present) if present is not None else [T] * n
        self.labels = [None] * n
        self.name = None
        self.dtype = np.dtype(object)
        self.dtypes = list(dtypes) if dtypes is not None else [np.dtype("int64")] * len(self._lv)

    def copy(self):
        return MultiIndex(self._lv, self._names, self.present, self.dtypes)

    def with_present(self, present):
        return MultiIndex(self._lv, self._names, present, self.dtypes)

    @property
    def names(self):
        return list(self._names)

    @property
    def nlevels(self):
        return len(self._lv)

    @property
    def levels(self):
        """pandas' level dictionaries: the distinct values of each level over ALL stored rows — rows filtered out of the frame
        keep their entries ("unused levels") — as one Index per level"""
        out = []
        n = len(self.present)
        for i, lv in enumerate(self._lv):
            first = [z3.Not(zor(lv[j] == lv[k] for j in range(k))) for k in range(n)]
            out.append(Index(lv, first, self._names[i], self.dtypes[i]))
        return out

    def get_level_values(self, i):
        return Index(self._lv[i], self.present, self._names[i], self.dtypes[i])

    def to_frame(self, allow_duplicates=False, index=True):
        cols = [(nm if nm is not None else i, Series(lv, present=self.present, dtype=dt, index=self.copy()))
                for i, (nm, lv, dt) in enumerate(zip(self._names, self._lv, self.dtypes))]
        return DataFrame(cols, present=self.present, index=self.copy())

    def equals(self, other):
        if not isinstance(other, MultiIndex) or len(other._lv) != len(self._lv) or len(other.present) != len(self.present):
            return False
        return sb(zand(z3.And(p == q, z3.Implies(p, zand(a[i] == b[i] for a, b in zip(self._lv, other._lv))))
                       for i, (p, q) in enumerate(zip(self.present, other.present))))


class BoolArray(_Gap):
    """positional ndarray-of-bool stand-in."""

    def __init__(self, vals):
        self.vals = list(vals)

    def __invert__(self):
        return BoolArray([z3.Not(v) for v in self.vals])

    def any(self):
        return sb(zor(self.vals))


class StrPlaceholderSeries(_Gap):
    def __iter__(self):
        yield "<?cases>"


# =========================================================================== Series
class Series(_WithAccessor):
    def __init__(self, vals, nulls=None, present=None, index=None, name=None, dtype=None, kind=None):
        n = len(vals)
        self.dtype = dtype if dtype is not None else np.dtype("int64")
        self.kind = kind if kind is not None else kind_of(self.dtype)
        self.vals = [lift_cell(v, self.kind) if self.kind != "object" else v for v in vals]
        self.nulls = list(nulls) if nulls is not None else [F] * n
        self.present = list(present) if present is not None else [T] * n
        self.index = index if index is not None else Index(list(range(n)), self.present)
        self.name = name

    # ------------------------------------------------------------ construction helpers
    def _new(self, **kw):
        d = dict(vals=self.vals, nulls=self.nulls, present=self.present, name=self.name, dtype=self.dtype, kind=self.kind)
        d.update(kw)
        if "index" not in d:
            d["index"] = self.index.with_present(d["present"])
        return Series(**d)

    def _boolres(self, vals):
        return self._new(vals=vals, nulls=[F] * len(self.vals), dtype=np.dtype(bool), kind="bool")

    def copy(self, deep=True):
        return self._new()

    def __len__(self):
        if all(z3.is_true(p) for p in self.present):
            return len(self.vals)  # no row was ever masked out: the length is concrete
        # len() must be a python int: decide the number of present rows (one fork per possible length)
        return eng().concretize_int(z3.Sum([z3.If(p, 1, 0) for p in self.present]), range(len(self.vals) + 1))

    @property
    def shape(self):
        if all(z3.is_true(p) for p in self.present):
            return (len(self.vals),)
        return (len(self),)

    def rename(self, name):
        return self._new(name=name)

    def to_frame(self):
        return DataFrame([(self.name, self)], present=self.present, index=self.index.copy())

    def reset_index(self, drop=False):
        if drop:
            labels, cnt = [], z3.IntVal(0)
            for p in self.present:
                labels.append(cnt)
                cnt = cnt + z3.If(p, 1, 0)
            return self._new(index=Index(labels, self.present))
        if isinstance(self.index, MultiIndex):
            raise ModelGap("reset_index on MultiIndex")
        idx_name = self.index.name or "index"
        idx_col = Series(self.index.labels, present=self.present, name=idx_name, dtype=self.index.dtype)
        return DataFrame([(idx_name, idx_col), (self.name, self._new())], present=self.present)

    def pipe(self, fn):
        return fn(self)

    # ------------------------------------------------------------ nulls
    @property
    def hasnans(self):
        return sb(zor(z3.And(p, n) for p, n in zip(self.present, self.nulls)))

    def isna(self):
        return self._boolres(self.nulls)

    def notna(self):
        return self._boolres([z3.Not(n) for n in self.nulls])

    def dropna(self):
        return self._new(present=[z3.And(p, z3.Not(n)) for p, n in zip(self.present, self.nulls)])

    def fillna(self, value):
        vz = lift_cell(value, self.kind)
        return self._new(vals=[z3.If(n, vz, v) for v, n in zip(self.vals, self.nulls)], nulls=[F] * len(self.vals))

    # ------------------------------------------------------------ reductions
    def any(self, axis=None):
        if self.kind != "bool":
            raise ModelGap("any() on non-bool")
        return sb(zor(z3.And(p, v) for p, v in zip(self.present, self.vals)))

    def all(self, axis=None):
        if self.kind != "bool":
            raise ModelGap("all() on non-bool")
        return sb(zand(z3.Implies(p, v) for p, v in zip(self.present, self.vals)))

    @property
    def empty(self):
        return sb(z3.Not(zor(self.present)))

    def _extreme(self, better):
        live = [z3.And(p, z3.Not(n)) for p, n in zip(self.present, self.nulls)]
        best, has = None, F
        for v, l in zip(self.vals, live):
            if best is None:
                best, has = v, l
            else:
                best = z3.If(z3.And(l, z3.Or(z3.Not(has), better(v, best))), v, best)
                has = z3.Or(has, l)
        eng().assume  # noqa: B018  (no assumption added: caller must have excluded the all-null case)
        return wrap_num(best)

    def min(self):
        return self._extreme(lambda a, b: a < b)

    def max(self):
        return self._extreme(lambda a, b: a > b)

    # ------------------------------------------------------------ conversion
    def astype(self, t):
        if t is bool or t == bool:
            if self.kind == "bool":
                return self._new()
            raise ModelGap("astype(bool) on non-bool")
        if t is str:
            if self.kind == "object" and any(isinstance(x, tuple) for x in self.vals):
                return self._new()  # rendered row labels: the tuple of level terms stands for its own text
            return StrPlaceholderSeries()
        if isinstance(t, real_pd.CategoricalDtype):
            # pandas: values outside the categories become missing, nothing is raised
            if self.kind != "str" or t.categories is None or not all(isinstance(c, str) for c in t.categories):
                raise ModelGap("astype(category) of a non-string column")
            cats = [z3.StringVal(c) for c in t.categories]
            return self._new(nulls=[z3.Or(n, z3.Not(zor(v == c for c in cats))) for v, n in zip(self.vals, self.nulls)], dtype=t, kind="str")
        try:
            dt = np.dtype(t)
        except TypeError:
            raise ModelGap(f"astype({t})")
        k = kind_of(dt)
        if k == self.kind:
            return self._new(dtype=dt)
        if self.kind == "int" and k == "float":
            return self._new(vals=[z3.ToReal(v) for v in self.vals], dtype=dt, kind="float")
        if self.kind == "float" and k == "int":
            # numpy/pandas: NaN cannot be cast to integer (IntCastingNaNError, a ValueError); finite values truncate
            if eng().branch(zor(z3.And(p, n) for p, n in zip(self.present, self.nulls))):
                raise ValueError("Cannot convert non-finite values (NA or inf) to integer")
            trunc = [z3.If(v >= 0, z3.ToInt(v), -z3.ToInt(-v)) for v in self.vals]
            return self._new(vals=trunc, nulls=[F] * len(trunc), dtype=dt, kind="int")
        raise ModelGap(f"astype {self.kind}->{k}")

    # ------------------------------------------------------------ elementwise logic
    def __invert__(self):
        if self.kind != "bool":
            raise ModelGap("~ on non-bool")
        return self._new(vals=[z3.Not(v) for v in self.vals])

    def _boolop(self, o, f):
        if isinstance(o, Series) and o.kind == "bool" and self.kind == "bool" and len(o.vals) == len(self.vals):
            return self._new(vals=[f(a, b) for a, b in zip(self.vals, o.vals)])
        return NotImplemented

    def __and__(self, o):
        return self._boolop(o, z3.And)

    def __or__(self, o):
        return self._boolop(o, z3.Or)

    def _cmp(self, o, op, null_result=False):
        if isinstance(o, Series):
            if len(o.vals) != len(self.vals) or o.kind not in ("int", "float", "str") or {o.kind, self.kind} == {"str", "int"}:
                raise ModelGap("series-series comparison shape/kind")
            vals = [z3.If(z3.Or(n, m), z3.BoolVal(null_result), op(a, b)) for a, b, n, m in zip(self.vals, o.vals, self.nulls, o.nulls)]
            return self._boolres(vals)
        try:
            oz = lift_cell(o, self.kind)
        except ModelGap:
            return NotImplemented
        return self._boolres([z3.If(n, z3.BoolVal(null_result), op(v, oz)) for v, n in zip(self.vals, self.nulls)])

    def __ge__(self, o):
        return self._cmp(o, lambda a, b: a >= b)

    def __gt__(self, o):
        return self._cmp(o, lambda a, b: a > b)

    def __le__(self, o):
        return self._cmp(o, lambda a, b: a <= b)

    def __lt__(self, o):
        return self._cmp(o, lambda a, b: a < b)

    def __eq__(self, o):
        return self._cmp(o, lambda a, b: a == b)

    def __ne__(self, o):
        return self._cmp(o, lambda a, b: a != b, null_result=True)

    __hash__ = None

    def isin(self, values):
        vs = []
        for v in values:
            try:
                vs.append(lift_cell(v, self.kind))
            except ModelGap:
                pass  # value of another kind can never be equal
        return self._boolres([z3.And(z3.Not(n), zor(v == x for x in vs)) for v, n in zip(self.vals, self.nulls)])

    def map(self, fn, na_action=None):
        if na_action not in (None, "ignore"):
            raise ValueError("na_action must either be 'ignore' or None")
        out, onull = [], []
        for v, n, p in zip(self.vals, self.nulls, self.present):
            if not eng().branch(p):  # absent slot (e.g. dropped by ignore_na): the callback is never invoked for it
                out.append(F)
                onull.append(F)
                continue
            if eng().branch(n):  # callback observes the null itself, exactly as pandas hands it over
                if na_action == "ignore":  # ... unless nulls are propagated without calling the function
                    out.append(T)  # (a missing value is truthy in pandas' reductions)
                    onull.append(T)
                    continue
                r = fn(float("nan") if self.kind in ("int", "float") else None)
            else:
                r = fn(wrap_cell(v, self.kind))
            out.append(lift_bool(r))
            onull.append(F)
        res = self._boolres(out)
        if any(not z3.is_false(x) for x in onull):
            res = res._new(nulls=onull)
        return res

    # ------------------------------------------------------------ selection
    def __getitem__(self, key):
        if isinstance(key, Series) and key.kind == "bool":
            return self._new(present=[z3.And(p, q, m) for p, q, m in zip(self.present, key.present, key.vals)])
        if isinstance(key, BoolArray):
            return self._new(present=[z3.And(p, m) for p, m in zip(self.present, key.vals)])
        raise ModelGap(f"Series.__getitem__({type(key).__name__})")

    @property
    def iloc(self):
        return _ILoc(self)

    def head(self, n=5):
        return self._new(present=_head_mask(self.present, n))

    def tail(self, n=5):
        return self._new(present=_head_mask(self.present[::-1], n)[::-1])

    def sample(self, n=None, random_state=None):
        return self._new(present=_sample_mask(self.present, n, random_state))

    # ------------------------------------------------------------ uniqueness
    def _eq_cell(self, i, j):
        return z3.Or(z3.And(self.nulls[i], self.nulls[j]),
                     z3.And(z3.Not(self.nulls[i]), z3.Not(self.nulls[j]), self.vals[i] == self.vals[j]))

    def duplicated(self, keep="first"):
        if keep not in ("first", "last", False):
            raise ValueError('keep must be either "first", "last" or False')
        n = len(self.vals)
        out = []
        for i in range(n):
            js = range(0, i) if keep == "first" else range(i + 1, n) if keep == "last" else [j for j in range(n) if j != i]
            out.append(zor(z3.And(self.present[j], self._eq_cell(i, j)) for j in js))
        return self._boolres(out)

    @property
    def is_unique(self):
        d = self.duplicated("first")
        return sb(z3.Not(zor(z3.And(p, v) for p, v in zip(self.present, d.vals))))

    @property
    def loc(self):
        return _SLoc(self)

    def groupby(self, by):
        if isinstance(by, Series) and by.kind == "bool":
            return _BoolGroupBy(self, by)
        raise ModelGap("Series.groupby")

    @property
    def str(self):
        if self.kind != "str":
            raise AttributeError("Can only use .str accessor with string values!")
        return _StrAccessor(self)


class _SLoc:
    def __init__(self, s):
        self.s = s

    def __getitem__(self, key):
        if isinstance(key, (BoolArray, Series)):
            return self.s[key]
        if isinstance(key, Index) and not isinstance(key, MultiIndex) and not isinstance(self.s.index, MultiIndex):
            # selection by a list of labels: for every requested label (in order) every row carrying it — a repeated label brings
            # all its rows, once per request
            s = self.s
            vals, nulls, pres, labs = [], [], [], []
            for k, (lk, pk) in enumerate(zip(key.labels, key.present)):
                for r in range(len(s.vals)):
                    vals.append(s.vals[r])
                    nulls.append(s.nulls[r])
                    pres.append(z3.And(pk, s.present[r], s.index.labels[r] == lk))
                    labs.append(lk)
            return Series(vals, nulls, pres, index=Index(labs, pres, s.index.name, s.index.dtype), name=s.name, dtype=s.dtype, kind=s.kind)
        raise ModelGap("Series.loc[non-mask]")


class _BoolGroupBy:
    def __init__(self, s, key):
        self.s, self.key = s, key

    def head(self, n):
        s, key = self.s, self.key
        out = []
        for i in range(len(s.vals)):
            earlier = z3.Sum([z3.If(z3.And(s.present[j], key.vals[j] == key.vals[i]), 1, 0) for j in range(i)]) if i else z3.IntVal(0)
            out.append(z3.And(s.present[i], earlier < lift_num(n)))
        return s._new(present=out)


class _StrAccessor:
    def __init__(self, s):
        self.s = s

    def _res(self, f, na):
        if na is not False:
            raise ModelGap("str op with na != False")
        s = self.s
        return s._boolres([z3.And(z3.Not(n), f(v)) for v, n in zip(s.vals, s.nulls)])

    def startswith(self, pat, na=None):
        return self._res(lambda v: z3.PrefixOf(lift_str(pat), v), na)

    def endswith(self, pat, na=None):
        return self._res(lambda v: z3.SuffixOf(lift_str(pat), v), na)

    def contains(self, pat, na=None, regex=True):
        lang = regex_language(pat, "search")
        return self._res(lambda v: z3.InRe(v, lang), na)

    def match(self, pat, na=None):
        lang = regex_language(pat, "match")
        return self._res(lambda v: z3.InRe(v, lang), na)

    def len(self):
        s = self.s
        return s._new(vals=[z3.ToReal(z3.Length(v)) for v in s.vals], dtype=np.dtype("float64"), kind="float")


def _slice_mask(present, key):
    """iloc[start:stop] on the rows that are present: python slice semantics over positions (negative bounds count from the end,
    -0 is 0), with symbolic bounds allowed; step must be None/1"""
    if not isinstance(key, slice) or key.step not in (None, 1):
        raise ModelGap("iloc with a non-slice / stepped key")
    n = z3.Sum([z3.If(p, 1, 0) for p in present]) if present else z3.IntVal(0)

    def norm(b, default):
        if b is None:
            return default
        z = lift_num(b)
        return z3.If(z < 0, z3.If(n + z < 0, z3.IntVal(0), n + z), z3.If(z > n, n, z))

    lo, hi = norm(key.start, z3.IntVal(0)), norm(key.stop, n)
    out, pos = [], z3.IntVal(0)
    for p in present:
        out.append(z3.And(p, pos >= lo, pos < hi))
        pos = pos + z3.If(p, 1, 0)
    return out


class _ILoc:
    def __init__(self, obj):
        self.obj = obj

    def __getitem__(self, key):
        o = self.obj
        newp = _slice_mask(o.present, key)
        if isinstance(o, Series):
            return o._new(present=newp)
        return DataFrame(o._cols, present=newp, index=o.index.with_present(newp))


def _head_mask(present, n):
    out, cnt = [], z3.IntVal(0)
    nz = lift_num(n)
    for p in present:
        out.append(z3.And(p, cnt < nz))
        cnt = cnt + z3.If(p, 1, 0)
    return out


def _sample_mask(present, n, random_state):
    """Nondeterministic stub: any n distinct present rows; same (n, random_state, position) -> same choice."""
    picks = [z3.Bool(f"sample!{random_state}!{i}") for i in range(len(present))]
    from symx import PathAbort
    try:
        eng().constrain(z3.Sum([z3.If(z3.And(p, k), 1, 0) for p, k in zip(present, picks)]) == lift_num(n))
    except PathAbort:
        raise ValueError("Cannot take a larger sample than population when 'replace=False'")
    return [z3.And(p, k) for p, k in zip(present, picks)]


# =========================================================================== DataFrame
class _Loc:
    def __init__(self, df):
        self.df = df

    def __getitem__(self, key):
        if isinstance(key, tuple):
            mask, cols = key
            return self.df[list(cols)]._mask(mask)
        return self.df._mask(key)


class DataFrame(_WithAccessor):
    def __init__(self, cols, present=None, index=None):
        cols = list(cols.items()) if isinstance(cols, dict) else list(cols)
        n = len(cols[0][1].vals) if cols else (len(index.labels) if index is not None else 0)
        object.__setattr__(self, "present", list(present) if present is not None else [T] * n)
        idx = index if index is not None else Index(list(range(n)), self.present)
        object.__setattr__(self, "_index", idx.with_present(self.present))
        object.__setattr__(self, "_cols", [(k, c._new(present=self.present, index=self._index.copy(), name=k)) for k, c in cols])

    # index is assignable (IndexBackend / _coerce_dtype_helper do `obj.index = coerced`)
    @property
    def index(self):
        return self._index

    def __setattr__(self, name, value):
        if name == "index":
            if not isinstance(value, Index):
                raise ModelGap("index assignment of non-shim index")
            object.__setattr__(self, "_index", value.with_present(self.present))
            object.__setattr__(self, "_cols", [(k, c._new(index=self._index.copy())) for k, c in self._cols])
        elif name == "columns":
            names = list(value)
            assert len(names) == len(self._cols)
            object.__setattr__(self, "_cols", [(n, c._new(name=n)) for n, (_, c) in zip(names, self._cols)])
        else:
            object.__setattr__(self, name, value)

    @property
    def columns(self):
        return real_pd.Index([k for k, _ in self._cols])

    @property
    def dtypes(self):
        return real_pd.Series({k: c.dtype for k, c in self._cols})

    def __contains__(self, k):
        return any(k == c for c, _ in self._cols)

    def __iter__(self):
        return iter([k for k, _ in self._cols])

    def _get(self, k):
        hits = [c for kk, c in self._cols if kk == k]
        if len(hits) != 1:
            raise ModelGap("duplicate/missing column label")
        return hits[0]

    def __getitem__(self, k):
        if isinstance(k, (list, real_pd.Index)):
            return DataFrame([(c, self._get(c)) for c in k], present=self.present, index=self.index.copy())
        if isinstance(k, Series) and k.kind == "bool":
            return self._mask(k)
        if isinstance(k, BoolArray):
            return self._mask(k)
        if isinstance(k, DataFrame):
            return self._where(k)
        if isinstance(k, (str, int)):
            if k not in self:
                raise KeyError(k)
            return self._get(k)
        raise ModelGap(f"DataFrame.__getitem__({type(k).__name__})")

    def __setitem__(self, k, v):
        if v is None:
            n = len(self.present)
            v = Series([None] * n, nulls=[T] * n, present=self.present, kind="object", dtype=np.dtype(object))
        if not isinstance(v, Series):
            raise ModelGap("setitem non-series")
        v = v._new(present=self.present, index=self.index.copy(), name=k)
        cols = list(self._cols)
        for i, (kk, _) in enumerate(cols):
            if kk == k:
                cols[i] = (k, v)
                break
        else:
            cols.append((k, v))
        object.__setattr__(self, "_cols", cols)

    def __getattr__(self, name):
        for k, c in self.__dict__.get("_cols", []):
            if k == name:
                return c
        return _Gap.__getattr__(self, name)

    def _mask(self, m):
        mv = m.vals
        mp = m.present if isinstance(m, Series) else [T] * len(mv)
        newp = [z3.And(p, q, v) for p, q, v in zip(self.present, mp, mv)]
        return DataFrame(self._cols, present=newp, index=self.index.with_present(newp))

    @property
    def loc(self):
        return _Loc(self)

    def copy(self, deep=True):
        return DataFrame(self._cols, present=self.present, index=self.index.copy())

    def pipe(self, fn):
        return fn(self)

    @property
    def shape(self):
        if all(z3.is_true(p) for p in self.present):
            return (len(self.present), len(self._cols))  # no row was ever masked out
        return _SymShape(self.present, len(self._cols))

    @property
    def empty(self):
        return sb(z3.Not(zor(self.present)))

    def drop(self, labels=None, axis=0, inplace=False):
        if axis != 1:
            raise ModelGap("drop rows")
        new = [(k, c) for k, c in self._cols if k not in labels]
        if inplace:
            object.__setattr__(self, "_cols", new)
            return None
        return DataFrame(new, present=self.present, index=self.index.copy())

    def duplicated(self, subset=None, keep="first"):
        cols = [self._get(c) for c in (subset if subset is not None else [k for k, _ in self._cols])]
        n = len(self.present)
        out = []
        for i in range(n):
            js = range(0, i) if keep == "first" else range(i + 1, n) if keep == "last" else [j for j in range(n) if j != i]
            out.append(zor(z3.And(self.present[j], zand(c._eq_cell(i, j) for c in cols)) for j in js))
        return Series(out, present=self.present, index=self.index.copy(), dtype=np.dtype(bool), kind="bool")

    def isna(self):
        return DataFrame([(k, c.isna()) for k, c in self._cols], present=self.present, index=self.index.copy())

    # cell-wise operations (a built-in check attached to a DataFrameSchema is applied to the whole frame)
    def _cellwise(self, f, o=None):
        if isinstance(o, DataFrame):
            if [k for k, _ in o._cols] != [k for k, _ in self._cols]:
                raise ModelGap("cell-wise operation on frames with different columns")
            return DataFrame([(k, f(c, o._get(k))) for k, c in self._cols], present=self.present, index=self.index.copy())
        if isinstance(o, (Series, list, tuple, np.ndarray, real_pd.Series)):
            raise ModelGap("cell-wise frame operation with a vector")
        return DataFrame([(k, f(c, o)) for k, c in self._cols], present=self.present, index=self.index.copy())

    def __ge__(self, o):
        return self._cellwise(lambda c, x: c >= x, o)

    def __gt__(self, o):
        return self._cellwise(lambda c, x: c > x, o)

    def __le__(self, o):
        return self._cellwise(lambda c, x: c <= x, o)

    def __lt__(self, o):
        return self._cellwise(lambda c, x: c < x, o)

    def __eq__(self, o):
        return self._cellwise(lambda c, x: c == x, o)

    def __ne__(self, o):
        return self._cellwise(lambda c, x: c != x, o)

    __hash__ = None

    def __and__(self, o):
        return self._cellwise(lambda c, x: c & x, o)

    def __or__(self, o):
        return self._cellwise(lambda c, x: c | x, o)

    def __invert__(self):
        return DataFrame([(k, ~c) for k, c in self._cols], present=self.present, index=self.index.copy())

    def isin(self, values):
        return DataFrame([(k, c.isin(values)) for k, c in self._cols], present=self.present, index=self.index.copy())

    def _where(self, m):
        """frame[boolean frame]: cells where the mask is False become null"""
        if [k for k, _ in m._cols] != [k for k, _ in self._cols]:
            raise ModelGap("boolean frame mask with different columns")
        cols = []
        for k, c in self._cols:
            mv = m._get(k).vals
            cols.append((k, c._new(nulls=[z3.Or(nl, z3.Not(x)) for nl, x in zip(c.nulls, mv)])))
        return DataFrame(cols, present=self.present, index=self.index.copy())

    def rename_axis(self, name, axis=0):
        if axis != 0 or isinstance(self.index, MultiIndex):
            raise ModelGap("rename_axis")
        new = self.copy()
        new.index = Index(self.index.labels, self.present, name=name, dtype=self.index.dtype)
        return new

    def set_index(self, key, drop=True):
        c = self._get(key)
        if any(z3.is_expr(x) for x in c.vals):
            raise ModelGap("set_index on a symbolic column")
        return _ColumnIndexed(self, key)

    def any(self, axis=0):
        if axis not in (0, "index"):
            raise ModelGap("DataFrame.any(axis=1)")
        return _ByLabel({k: c.any() for k, c in self._cols})

    def all(self, axis=0):
        if axis in (0, "index"):
            return _ByLabel({k: c.all() for k, c in self._cols})
        if axis in (1, "columns"):
            n = len(self.present)
            return Series([zand(c.vals[i] for _, c in self._cols) for i in range(n)], present=self.present, index=self.index.copy(), dtype=np.dtype(bool), kind="bool")
        if axis is None:
            zt = lambda b: b.z if hasattr(b, "z") else z3.BoolVal(bool(b))  # noqa: E731  (a constant verdict comes back as a python bool)
            return sb(zand(zt(c.all()) for _, c in self._cols))
        raise ModelGap("DataFrame.all(axis=%r)" % (axis,))

    def dropna(self):
        anynull = [zor(c.nulls[i] for _, c in self._cols) for i in range(len(self.present))]
        newp = [z3.And(p, z3.Not(a)) for p, a in zip(self.present, anynull)]
        return DataFrame(self._cols, present=newp, index=self.index.with_present(newp))

    @property
    def iloc(self):
        return _ILoc(self)

    # no __len__: pandera's only use of len(frame) is ErrorHandler's failure_cases_count (stored, never read), which falls back to
    # 1 on TypeError; deciding the height there would multiply the paths of every lazy template (measured: 4x the solver queries)

    def _before(self, t, s):
        """row t comes before row s"""
        order = self.__dict__.get("_order")
        if order is None:
            return z3.BoolVal(t < s)
        return z3.Or(order[t] < order[s], z3.And(order[t] == order[s], z3.BoolVal(t < s)))

    def _keep_order(self, out):
        if self.__dict__.get("_order") is not None:
            object.__setattr__(out, "_order", self.__dict__["_order"])
        return out

    def head(self, n=5):
        if self.__dict__.get("_order") is None:
            newp = _head_mask(self.present, n)
        else:
            nz, m = lift_num(n), len(self.present)
            newp = [z3.And(self.present[s], z3.Sum([z3.If(z3.And(self.present[t], self._before(t, s)), 1, 0) for t in range(m) if t != s] + [z3.IntVal(0)]) < nz)
                    for s in range(m)]
        return self._keep_order(DataFrame(self._cols, present=newp, index=self.index.with_present(newp)))

    def drop_duplicates(self):
        """rows equal (in every column) to a row that comes before them are removed"""
        m = len(self.present)
        eq = lambda s, t: zand(_cell_equal(c.vals[s], c.nulls[s], c.vals[t], c.nulls[t]) for _, c in self._cols)  # noqa: E731
        newp = [z3.And(self.present[s], z3.Not(zor(z3.And(self.present[t], self._before(t, s), eq(s, t)) for t in range(m) if t != s))) for s in range(m)]
        return self._keep_order(DataFrame(self._cols, present=newp, index=self.index.with_present(newp)))

    def tail(self, n=5):
        if self.__dict__.get("_order") is not None:
            raise ModelGap("tail of a key-ordered frame")
        newp = _head_mask(self.present[::-1], n)[::-1]
        return DataFrame(self._cols, present=newp, index=self.index.with_present(newp))

    def sample(self, n=None, random_state=None):
        newp = _sample_mask(self.present, n, random_state)
        return DataFrame(self._cols, present=newp, index=self.index.with_present(newp))

    def unstack(self):
        return _Unstacked(self)

    def astype(self, t):
        return DataFrame([(k, c.astype(t)) for k, c in self._cols], present=self.present, index=self.index.copy())

    def groupby(self, by, observed=None, sort=True):
        # `observed` only matters for categorical keys with unused categories, which the templates do not build
        if not sort:
            raise ModelGap("groupby(sort=False)")
        return _FrameGroupBy(self, by)

    def apply(self, fn, axis=0):
        if fn is tuple and axis in (1, "columns"):
            n = len(self.present)
            rows = [tuple(wrap_cell(c.vals[i], c.kind) for _, c in self._cols) for i in range(n)]
            return Series(rows, present=self.present, index=self.index.copy(), kind="object", dtype=np.dtype(object))
        raise ModelGap("DataFrame.apply")

    def assign(self, **kw):
        new = self.copy()
        n = len(self.present)
        for k, v in kw.items():
            if callable(v):
                v = v(new)
            if isinstance(v, Series):
                new[k] = v
            elif isinstance(v, list):
                assert len(v) == n
                new[k] = Series(list(v), present=self.present, kind="object", dtype=np.dtype(object))
            else:
                new[k] = Series([v] * n, present=self.present, kind="object", dtype=np.dtype(object))
        return new

    def reset_index(self, drop=False):
        if not drop:
            if isinstance(self.index, MultiIndex):
                raise ModelGap("DataFrame.reset_index(drop=False) on a MultiIndex")
            idx_name = self.index.name or "index"
            idx_col = Series(self.index.labels, present=self.present, name=idx_name, dtype=self.index.dtype)
            return DataFrame([(idx_name, idx_col)] + list(self._cols), present=self.present)
        labels, cnt = [], z3.IntVal(0)
        for p in self.present:
            labels.append(cnt)
            cnt = cnt + z3.If(p, 1, 0)
        return DataFrame(self._cols, present=self.present, index=Index(labels, self.present))

    def sort_values(self, by, ascending=True):
        keys = self._get(by).vals
        if any(z3.is_expr(k) for k in keys):
            raise ModelGap("sort_values on symbolic key")
        order = sorted(range(len(keys)), key=lambda i: keys[i], reverse=not ascending)  # stable, concrete key
        perm = lambda xs: [xs[i] for i in order]  # noqa: E731
        newp = perm(self.present)
        cols = [(k, Series(perm(c.vals), perm(c.nulls), newp, name=k, dtype=c.dtype, kind=c.kind)) for k, c in self._cols]
        if isinstance(self.index, MultiIndex):
            raise ModelGap("sort_values with MultiIndex")
        return DataFrame(cols, present=newp, index=Index(perm(self.index.labels), newp, self.index.name))


class _SymShape:
    """shape of a frame with masked rows: only comparable with the shape of a frame over the same row mask"""

    def __init__(self, present, ncols):
        self.present, self.ncols = present, ncols

    def __eq__(self, o):
        if isinstance(o, _SymShape) and len(o.present) == len(self.present) and all(a.eq(b) for a, b in zip(self.present, o.present)):
            return self.ncols == o.ncols
        raise ModelGap("DataFrame.shape is symbolic")

    __hash__ = None

    def __getitem__(self, i):
        if i == 1:
            return self.ncols
        raise ModelGap("DataFrame.shape is symbolic")


class CaseDict:
    """a dict whose membership and values depend on the cells: entries (key, condition, value term, null term).  It is what
    `failure_cases.set_index("column").groupby("index").agg(lambda s: s.to_dict())` puts in a cell; evaluated under a model by
    pvharness.Vals.term"""

    def __init__(self, entries):
        self.entries = list(entries)

    def __repr__(self):
        return "<?dict>"


class _GroupCell:
    def __init__(self, entries):
        self.entries = entries

    def to_dict(self):
        return CaseDict(self.entries)


class _ColumnIndexed(_Gap):
    """frame.set_index(<column with concrete values>) — only what PandasCheckBackend.postprocess_table does with it"""

    def __init__(self, df, key):
        self.df, self.key = df, key

    def groupby(self, by):
        return _ColumnIndexedGroupBy(self.df, self.key, by)


class _ColumnIndexedGroupBy(_Gap):
    def __init__(self, df, key, by):
        self.df, self.key, self.by = df, key, by

    def agg(self, fn):
        df = self.df
        keys, labels = df._get(self.key).vals, df._get(self.by).vals
        n = len(df.present)
        rest = [(k, c) for k, c in df._cols if k not in (self.key, self.by)]
        # one result row per distinct group label: the slot of its first present row stands for the group
        first = [z3.And(df.present[s], z3.Not(zor(z3.And(df.present[t], labels[t] == labels[s]) for t in range(s)))) for s in range(n)]
        cols = []
        for k, c in rest:
            cells = []
            for s in range(n):
                entries = [(keys[t], z3.And(df.present[t], labels[t] == labels[s]), c.vals[t], c.nulls[t]) for t in range(n)]
                cells.append(fn(_GroupCell(entries)))
            cols.append((k, Series(cells, present=first, kind="object", dtype=np.dtype(object))))
        out = DataFrame(cols, present=first, index=Index(labels, first, name=self.by))
        object.__setattr__(out, "_order", list(labels))  # groupby sorts by key: row order is label order, not slot order
        return out


def _cell_equal(a, na, b, nb):
    """equality of two cells as drop_duplicates sees it (nulls equal each other; dictionaries by content)"""
    if isinstance(a, CaseDict) or isinstance(b, CaseDict):
        if not (isinstance(a, CaseDict) and isinstance(b, CaseDict)):
            return F
        keys = sorted({k for k, *_ in a.entries} | {k for k, *_ in b.entries}, key=str)
        terms = []
        for k in keys:
            ea = [(c, x, nl) for kk, c, x, nl in a.entries if kk == k]
            eb = [(c, x, nl) for kk, c, x, nl in b.entries if kk == k]
            ina, inb = zor(c for c, _, _ in ea), zor(c for c, _, _ in eb)
            same = zand(z3.Implies(z3.And(ca, cb), z3.And(nla == nlb, z3.Or(nla, _term_eq(xa, xb)))) for ca, xa, nla in ea for cb, xb, nlb in eb)
            terms.append(z3.And(ina == inb, same))
        return z3.And(na == nb, z3.Or(na, zand(terms)))
    return z3.And(na == nb, z3.Or(na, _term_eq(a, b)))


def _term_eq(x, y):
    x, y = getattr(x, "z", x), getattr(y, "z", y)
    if z3.is_expr(x) and z3.is_expr(y):
        if x.sort() == y.sort():
            return x == y
        if (z3.is_int(x) or z3.is_real(x)) and (z3.is_int(y) or z3.is_real(y)):
            return (z3.ToReal(x) if z3.is_int(x) else x) == (z3.ToReal(y) if z3.is_int(y) else y)
        return F
    if z3.is_expr(x) or z3.is_expr(y):
        raise ModelGap("comparison of a term with a constant cell")
    return z3.BoolVal(x == y)


class _FrameGroupBy:
    """groupby on columns whose values are concrete (the grouping keys are not symbolic; the grouped values are)"""

    def __init__(self, df, by, col=None):
        self.df, self.by, self.col = df, by, col
        keys = [by] if isinstance(by, str) else list(by)
        self.keycols = []
        for k in keys:
            c = df._get(k)
            vals = []
            for x in c.vals:
                if z3.is_expr(x):
                    if z3.is_int_value(x):
                        vals.append(x.as_long())
                    elif z3.is_string_value(x):
                        vals.append(x.as_string())
                    else:
                        raise ModelGap("groupby on a symbolic key column")
                else:
                    vals.append(x)
            self.keycols.append(vals)
        self.scalar = isinstance(by, str)

    def __getitem__(self, col):
        return _FrameGroupBy(self.df, self.by, col)

    def __iter__(self):
        n = len(self.df.present)
        rowkeys = [tuple(kc[i] for kc in self.keycols) for i in range(n)]
        for key in sorted(set(rowkeys)):
            mask = [z3.And(self.df.present[i], z3.BoolVal(rowkeys[i] == key)) for i in range(n)]
            if not eng().branch(zor(mask)):  # pandas yields no empty groups
                continue
            sub = DataFrame(self.df._cols, present=mask, index=self.df.index.with_present(mask))
            yield (key[0] if self.scalar else key), (sub if self.col is None else sub._get(self.col))


class _ByLabel(dict):
    """result of a column-wise reduction: label -> scalar"""


class _Unstacked(_Gap):
    def __init__(self, df):
        self.df = df

    def reset_index(self):
        df = self.df
        if isinstance(df.index, MultiIndex):
            raise ModelGap("unstack with MultiIndex")
        # pandas: DataFrame.unstack() == T.stack(); stacking refuses duplicate column values, i.e. duplicate row labels
        n = len(df.present)
        dup = zor(z3.And(df.present[i], df.present[j], df.index.labels[i] == df.index.labels[j]) for i in range(n) for j in range(i))
        if eng().branch(dup):
            raise ValueError("Columns with duplicate values are not supported in stack")
        lev0, lev1, vals, nulls, pres = [], [], [], [], []
        for k, c in df._cols:
            for i in range(len(df.present)):
                lev0.append(k)
                lev1.append(df.index.labels[i])
                vals.append(c.vals[i])
                nulls.append(c.nulls[i])
                pres.append(df.present[i])
        return DataFrame([
            ("level_0", Series(lev0, present=pres, kind="object", dtype=np.dtype(object))),
            ("level_1", Series(lev1, present=pres)),
            (0, Series(vals, nulls, pres, kind="object", dtype=np.dtype(object))),
        ], present=pres)


def from_real(obj):
    """real pandas DataFrame -> shim frame with concrete cells."""
    n = len(obj)
    cols = []
    for k in obj.columns:
        vals = list(obj[k])
        nulls = [z3.BoolVal(bool(real_pd.isna(v))) if not isinstance(v, (list, dict, tuple)) else F for v in vals]
        cols.append((k, Series(vals, nulls=nulls, kind="object", dtype=np.dtype(object))))
    return DataFrame(cols, index=Index(list(range(n))))


_Index, _MultiIndex, _Series, _DataFrame = None, None, None, None


class PdProxy:
    """Stands in for the module global `pd` of pandera's pandas backend modules."""

    def __getattr__(self, name):
        return getattr(real_pd, name)

    class _Types:
        def __getattr__(self, name):
            return getattr(real_pd.api.types, name)

        @staticmethod
        def infer_dtype(x, skipna=True):
            """pandas.api.types.infer_dtype on an object column of strings: 'empty' without rows, 'string' when every
            element is a string, 'mixed' when a None is present (skipna=False)"""
            if isinstance(x, (Series, Index)):
                s = x if isinstance(x, Series) else x.to_series()
                if s.kind != "str":
                    raise ModelGap("infer_dtype on non-string shim column")
                if eng().branch(z3.Not(zor(s.present))):
                    return "empty"
                if eng().branch(zor(z3.And(p, n) for p, n in zip(s.present, s.nulls))) and not skipna:
                    return "mixed"
                return "string"
            return real_pd.api.types.infer_dtype(x, skipna=skipna)

    class _Api:
        def __getattr__(self, name):
            return getattr(real_pd.api, name)

    _Api.types = _Types()
    api = _Api()

    @staticmethod
    def isna(x):
        if is_sym(x):
            return False
        if isinstance(x, (Series, DataFrame)):
            return x.isna()
        return real_pd.isna(x)

    @staticmethod
    def notna(x):
        if is_sym(x):
            return True
        return real_pd.notna(x)

    class _DFMeta(type):
        def __instancecheck__(cls, obj):
            return isinstance(obj, (real_pd.DataFrame, DataFrame))

    class _DF(metaclass=_DFMeta):
        from_records = staticmethod(real_pd.DataFrame.from_records)

        def __new__(cls, data=None, index=None, **kw):
            return PdProxy._mk_frame(data, index, **kw)

    DataFrame = _DF

    class _IdxMeta(type):
        def __instancecheck__(cls, obj):
            return isinstance(obj, (real_pd.Index, Index))

    class Index(metaclass=_IdxMeta):
        def __new__(cls, *a, **kw):
            return real_pd.Index(*a, **kw)

    class _MIdxMeta(type):
        def __instancecheck__(cls, obj):
            return isinstance(obj, (real_pd.MultiIndex, MultiIndex))

    class MultiIndex(metaclass=_MIdxMeta):
        from_tuples = staticmethod(real_pd.MultiIndex.from_tuples)

        @staticmethod
        def from_arrays(arrays, names=None, **kw):
            arrays = list(arrays)
            if arrays and all(isinstance(a, Index) for a in arrays):
                return MultiIndex([a.labels for a in arrays], list(names) if names is not None else [a.name for a in arrays], arrays[0].present,
                                  [a.dtype for a in arrays])
            return real_pd.MultiIndex.from_arrays(arrays, names=names, **kw)

    class _SerMeta(type):
        def __instancecheck__(cls, obj):
            return isinstance(obj, (real_pd.Series, Series))

    class Series(metaclass=_SerMeta):
        def __new__(cls, *a, **kw):
            return real_pd.Series(*a, **kw)

    @staticmethod
    def _mk_frame(data=None, index=None, **kw):
        if isinstance(index, Index) or (isinstance(data, dict) and any(isinstance(v, (Series, Index)) for v in data.values())):
            cols = []
            n = len(index.labels) if index is not None else None
            for k, v in (data or {}).items():
                if isinstance(v, Index):
                    v = v.to_series()
                if isinstance(v, Series):
                    cols.append((k, v))
                    n = len(v.vals)
                else:
                    isnull = v is None or (isinstance(v, float) and v != v)
                    if is_sym(v):
                        kind = "int" if isinstance(v, SymInt) else "float" if isinstance(v, SymReal) else "str" if isinstance(v, SymStr) else "bool"
                        dt = {"int": np.dtype("int64"), "float": np.dtype("float64"), "str": np.dtype(object), "bool": np.dtype(bool)}[kind]
                        cols.append((k, Series([v] * n, dtype=dt)))
                    elif isnull:
                        cols.append((k, Series([z3.RealVal(0)] * n, nulls=[T] * n, dtype=np.dtype("float64"))))
                    else:
                        dt = np.asarray([v]).dtype
                        cols.append((k, Series([v] * n, dtype=dt if dt.kind != "U" else np.dtype(object))))
            pres = index.present if index is not None else next((c.present for _, c in cols if isinstance(c, Series)), None)
            return DataFrame(cols, present=pres, index=index)
        return real_pd.DataFrame(data=data, index=index, **kw)

    @staticmethod
    def concat(objs, axis=0):
        objs = list(objs)
        if not any(isinstance(o, (DataFrame, Series)) for o in objs):
            return real_pd.concat(objs, axis=axis)
        if axis == 1:
            if not all(isinstance(o, DataFrame) for o in objs):
                raise ModelGap("concat axis=1 of non-frames")
            cols = [kc for o in objs for kc in o._cols]
            return DataFrame(cols, present=objs[0].present, index=objs[0].index.copy())
        if all(isinstance(o, Series) for o in objs):
            pres = [p for o in objs for p in o.present]
            return Series([v for o in objs for v in o.vals], [n for o in objs for n in o.nulls], pres,
                          index=Index([l for o in objs for l in o.index.labels], pres, objs[0].index.name),
                          name=objs[0].name, dtype=objs[0].dtype, kind=objs[0].kind)
        frames = [o if isinstance(o, DataFrame) else from_real(o) if isinstance(o, real_pd.DataFrame) else None for o in objs]
        if any(f is None for f in frames):
            raise ModelGap("concat of mixed series/frames")
        names = [k for k, _ in frames[0]._cols]
        for f in frames:
            if sorted(map(str, (k for k, _ in f._cols))) != sorted(map(str, names)):
                raise ModelGap("concat with differing columns")
        pres = [p for f in frames for p in f.present]
        cols = []
        for k in names:
            cs = [f._get(k) for f in frames]
            kinds = {c.kind for c in cs}
            kind = kinds.pop() if len(kinds) == 1 else "object"
            cols.append((k, Series([v for c in cs for v in c.vals], [n for c in cs for n in c.nulls], pres,
                                   kind=kind, dtype=cs[0].dtype if kind != "object" else np.dtype(object))))
        labels = [l for f in frames for l in f.index.labels]
        return DataFrame(cols, present=pres, index=Index(labels, pres))
