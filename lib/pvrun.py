"""Runner: explores every template of a property in its own process, discharges the obligations with z3, replays
every path (differential guard) and every counterexample (before it may be called a violation) on the real
pandas/polars + real pandera, applies the known-findings file, writes the evidence file and sets the exit code.

exit 0: every obligation discharged (or matched by a listed known finding); 1: confirmed, unlisted violation;
3: harness error (shim/real mismatch, unreproducible counterexample, nothing explored, solver disagreement)."""
from __future__ import annotations

import importlib
import json
import multiprocessing as mp
import os
import re
import sys
import time
import traceback
from collections import Counter

VERIF = os.path.dirname(os.path.dirname(os.path.abspath(__file__)))
REPO = os.environ.get("PVERIF_REPO", "/repo")
MAX_CEX_PER_LABEL = 6


class Template:
    def __init__(self, tid, fn, args=(), max_paths=6000, budget_s=None, replay=True, timeout_ms=None, twin=None, extra_witnesses=False):
        self.tid, self.fn, self.args = tid, fn, tuple(args)
        self.max_paths, self.budget_s, self.replay, self.timeout_ms = max_paths, budget_s, replay, timeout_ms
        self.twin = twin  # label of a biconditional assertion for which the negated-oracle twin must be refuted
        self.extra_witnesses = extra_witnesses  # concrete-only assertions are also evaluated on all-True / all-False preferring witnesses


# ------------------------------------------------------------------------------------------------ worker side
def _cmp_struct(a, b):
    return json.dumps(a, sort_keys=True, default=str) == json.dumps(b, sort_keys=True, default=str)


def explore_template(t: Template, tier: str, seed: int):
    import z3

    import pvharness as H
    from symx import Engine, ModelGap, PathAbort, SymBool, set_engine

    t0 = time.time()
    budget = t.budget_s if t.budget_s is not None else (600 if tier == "quick" else 3600)
    timeout_ms = t.timeout_ms or (30000 if tier == "quick" else 90000)
    e = Engine(timeout_ms=timeout_ms, seed=seed, max_paths=t.max_paths, budget_s=budget)
    set_engine(e)
    holder = {}

    def sym():
        v = H.V(e)
        holder["v"] = v
        r = t.fn(v, *t.args)
        r["_vars"] = dict(v.vars)
        return r

    paths = e.explore(sym)
    res = dict(tid=t.tid, paths=len(paths), ret_paths=0, gaps=Counter(), harness_errors=[], mismatches=[], obligations=0,
               discharged=0, trivial=0, inconclusive=0, cex=[], replayed_ok=0, exhausted=bool(e.exhausted), samples=[],
               twin_refuted=None, labels=Counter(), kinds=Counter(), gap_probes=0, gap_probe_cex=0)
    twin_seen = False
    for p in paths:
        if p.kind == "gap":
            from symx import PathAbort as _PA

            if isinstance(p.value, _PA):
                res["infeasible_paths"] = res.get("infeasible_paths", 0) + 1  # the path's own constraints are unsatisfiable: not a path
                continue
            res["gaps"][str(p.value)[:100]] += 1
            # A path that leaves the environment model is not covered by the solver claim.  It is not ignored either: the
            # solver is asked for several diverse inputs that reach the point where the model ends, and the same template is
            # run on them concretely on the real pandas/polars; a labelled assertion that is false there is a genuine
            # counterexample (solver-produced input, replayed on the real code).  Holding there proves nothing and is
            # not counted as discharged.
            if t.replay and res["gap_probes"] < (600 if tier == "quick" else 4000):
                _probe_gap_path(e, H, t, p, holder.get("v"), res, 4 if tier == "quick" else 12)
            continue
        if p.kind == "exc":
            res["harness_errors"].append("template raised " + "".join(traceback.format_exception_only(type(p.value), p.value)).strip()[:300])
            continue
        res["ret_paths"] += 1
        out = p.value
        decls = out.get("_vars", {})
        asserts = out.get("asserts", [])
        facts = out.get("facts", {})
        res["kinds"][str((out.get("obs") or {}).get("kind", facts.get("kind")))] += 1
        # ---- differential replay of the path witness on real pandas
        wit = e.witness(p)
        if wit is None:
            if getattr(e, "last_witness_status", None) == "unknown":
                # the solver ran out of time on the model of a path it had found feasible (string constraints under load): the path's
                # obligations are inconclusive — neither discharged nor a verdict
                n_ob = len(asserts) or 1
                res["obligations"] += n_ob
                res["inconclusive"] += n_ob
                res["witness_timeouts"] = res.get("witness_timeouts", 0) + 1
                continue
            res["harness_errors"].append("no witness for explored path")
            continue
        wvals = H.vals_from_model(wit, decls)
        # stub variables (e.g. sample picks) that the shim introduced
        for c in _path_consts(p.pc):
            if c.decl().name() not in wvals:
                wvals.update(H.vals_from_model(wit, {c.decl().name(): c}))
        conc = None
        if t.replay:
            try:
                conc = t.fn(H.V(None, wvals), *t.args)
            except (ModelGap, PathAbort) as g:
                res["mismatches"].append(dict(what="concrete run hit model gap", err=str(g)[:200], vals=H.jsonable(wvals)))
                continue
            except Exception as exc:  # noqa: BLE001
                res["mismatches"].append(dict(what="concrete run raised", err=repr(exc)[:300], vals=H.jsonable(wvals),
                                              tb=traceback.format_exc()[-600:]))
                continue
            try:
                c_sym, c_real = H.comparable(out.get("obs"), wvals), H.comparable(conc.get("obs"))
            except (ModelGap, PathAbort) as g:
                res["gaps"]["comparable: " + str(g)[:80]] += 1
                continue
            strip = lambda d: {k: x for k, x in (d or {}).items() if not str(k).startswith("_")}  # noqa: E731
            f_sym, f_real = H.jsonable(strip(facts)), H.jsonable(strip(conc.get("facts", {})))

            def real_side_violations():
                """the model and the real code disagree on this path witness.  That is a defect of the model (harness error) —
                unless the REAL code violates a labelled assertion on the witness: that is a counterexample in its own right
                (a solver-produced input on which the real code breaks the property), whatever the model says."""
                sym_labels = {l for l, _ in asserts}
                n = 0
                for label, val in conc.get("asserts", []):
                    if label in sym_labels and not bool(val):
                        n += 1
                        if sum(1 for c in res["cex"] if c["label"] == label) < MAX_CEX_PER_LABEL:
                            res["cex"].append(dict(tid=t.tid, label=label, vals=H.jsonable(wvals), facts=H.jsonable(conc.get("facts", {})), confirmed=True,
                                                   detail="the real code violates the assertion on the path witness although the environment model does not "
                                                          "(the code left the behaviour the model describes)", args=H.jsonable(list(t.args))))
                return n

            if not _cmp_struct(c_sym, c_real) or not _cmp_struct(f_sym, f_real):
                if not real_side_violations():
                    res["mismatches"].append(dict(what="observation differs", sym=H.jsonable(c_sym), real=H.jsonable(c_real),
                                                  facts_sym=f_sym, facts_real=f_real, vals=H.jsonable(wvals)))
                continue
            # the assertion values themselves must agree under the witness (validates output-side modelling)
            cl = dict(conc.get("asserts", []))
            bad = None
            for label, cond in asserts:
                try:
                    sv = bool(wvals.term(cond.z if isinstance(cond, SymBool) else cond))
                except (ModelGap, PathAbort):
                    continue
                if label in cl and bool(cl[label]) != sv:
                    bad = (label, sv, bool(cl[label]))
                    break
            if bad:
                if not (bad[1] and not bad[2] and real_side_violations()):
                    res["mismatches"].append(dict(what="assertion value differs under path witness", label=bad[0], sym=bad[1],
                                                  real=bad[2], vals=H.jsonable(wvals), facts=f_sym))
                continue
            res["replayed_ok"] += 1
            # concrete complement: assertions that only exist on the real side (text-level clauses no solver term can
            # carry) are evaluated on every path witness; they are reported, but are not part of the solver claim
            sym_labels = {l for l, _ in asserts}
            for label, val in conc.get("asserts", []):
                if label not in sym_labels and not bool(val) and sum(1 for c in res["cex"] if c["label"] == label) < MAX_CEX_PER_LABEL:
                    res["cex"].append(dict(tid=t.tid, label=label, vals=H.jsonable(wvals), facts=H.jsonable(conc.get("facts", {})), confirmed=True,
                                           detail="concrete complement on the path witness (not solver-decided)", args=H.jsonable(list(t.args))))
        if t.replay and t.extra_witnesses and conc is not None:
            # the concrete-only assertions (text-level clauses) looked at away from the defaults: two more witnesses of this path
            sym_labels = {l for l, _ in asserts}
            e._scopes0 = e.solver.num_scopes()
            for pref in (True, False):
                m2 = e.witness_preferring(p, list(decls.values()), pref)
                if m2 is None:
                    continue
                w2 = H.vals_from_model(m2, decls)
                try:
                    c2 = t.fn(H.V(None, w2), *t.args)
                except BaseException:  # noqa: BLE001
                    continue
                for label, val in c2.get("asserts", []):
                    if label not in sym_labels and not bool(val) and sum(1 for c in res["cex"] if c["label"] == label) < MAX_CEX_PER_LABEL:
                        res["cex"].append(dict(tid=t.tid, label=label, vals=H.jsonable(w2), facts=H.jsonable(c2.get("facts", {})), confirmed=True,
                                               detail="concrete complement on a second witness of the path (not solver-decided)", args=H.jsonable(list(t.args))))
        if len(res["samples"]) < 2:
            res["samples"].append(dict(template=t.tid, inputs=H.jsonable(wvals), facts=H.jsonable(facts),
                                       observation=H.jsonable(H.comparable(out.get("obs"), wvals)) if out.get("obs") else None,
                                       assertions=[a for a, _ in asserts]))
        # ---- obligations
        for label, cond in asserts:
            res["obligations"] += 1
            res["labels"][label] += 1
            if isinstance(cond, SymBool):
                cond = cond.z
            if not z3.is_expr(cond):
                cond = bool(cond)
            else:
                sc = z3.simplify(cond)
                cond = True if z3.is_true(sc) else False if z3.is_false(sc) else cond
            if cond is True:
                res["discharged"] += 1
                res["trivial"] += 1
                continue
            if cond is False:
                cex_models = [wit]
                status = "sat"
            else:
                ob = e.discharge(p, cond)
                status = ob.result
                cex_models = [ob.model] if ob.model is not None else []
            if status == "unsat":
                res["discharged"] += 1
                # negated-oracle twin: the harness must be able to see a wrong oracle on this template
                if t.twin == label and not twin_seen and z3.is_expr(cond):
                    tw = e.discharge(p, z3.Not(cond))
                    if tw.result == "sat":
                        twin_seen = True
                continue
            if status == "unknown":
                res["inconclusive"] += 1
                continue
            # ---- counterexample: replay on the real code before reporting
            n_lab = sum(1 for c in res["cex"] if c["label"] == label)
            confirmed, tries, block, cvals, detail = False, 0, [], None, ""
            model = cex_models[0]
            while model is not None and tries < 4:
                tries += 1
                cvals = H.vals_from_model(model, decls)
                for c in _path_consts(p.pc):
                    if c.decl().name() not in cvals:
                        cvals.update(H.vals_from_model(model, {c.decl().name(): c}))
                try:
                    cr = t.fn(H.V(None, cvals), *t.args)
                    cl = dict(cr.get("asserts", []))
                    if label in cl and not bool(cl[label]):
                        confirmed = True
                        detail = json.dumps(H.jsonable(H.comparable(cr.get("obs"))), default=str)[:600] if cr.get("obs") else ""
                        facts = cr.get("facts", facts)
                        break
                    detail = "assertion holds concretely"
                except Exception as exc:  # noqa: BLE001
                    detail = "concrete replay raised " + repr(exc)[:200]
                if cond is False:
                    break
                block.append(z3.Or(*[d != model.eval(d, model_completion=True) for d in decls.values()]) if decls else z3.BoolVal(False))
                ob = e.discharge(p, cond, block=block)
                model = ob.model
            if n_lab < MAX_CEX_PER_LABEL or not confirmed:
                res["cex"].append(dict(tid=t.tid, label=label, vals=H.jsonable(cvals), facts=H.jsonable(facts),
                                       confirmed=confirmed, detail=detail, args=H.jsonable(list(t.args))))
            else:
                res["cex_more"] = res.get("cex_more", 0) + 1
    if t.twin is not None:
        res["twin_refuted"] = twin_seen
    res.update(queries=e.queries, solver_time=round(e.solver_time, 3), decisions=e.n_decisions, wall=round(time.time() - t0, 2))
    res["gaps"] = dict(res["gaps"])
    res["labels"] = dict(res["labels"])
    res["kinds"] = dict(res["kinds"])
    return res


def _probe_gap_path(e, H, t, p, v, res, k):
    """up to k diverse models of the path prefix that ends in a model gap -> concrete runs of the template"""
    import z3

    from symx import ModelGap, PathAbort

    if v is None:
        return
    decls = dict(v.vars)
    for c in _path_consts(p.pc):
        decls.setdefault(c.decl().name(), c)
    discrete = [d for d in decls.values() if z3.is_bool(d)] + [d for n, d in decls.items() if z3.is_int(d) and not n[-1:].isdigit()]
    s = e.solver
    s.push()
    try:
        for a in e.assumptions:
            s.add(a)
        s.add(*p.pc)
        for _ in range(k):
            if e.check() != "sat":
                break
            m = s.model()
            vals = H.vals_from_model(m, decls)
            res["gap_probes"] += 1
            try:
                cr = t.fn(H.V(None, vals), *t.args)
            except (ModelGap, PathAbort):
                cr = None
            except Exception:  # noqa: BLE001 - the template itself failed on the real side: not a statement about the property
                cr = None
            if cr is not None:
                for label, val in cr.get("asserts", []):
                    if not bool(val) and sum(1 for c in res["cex"] if c["label"] == label) < MAX_CEX_PER_LABEL:
                        res["gap_probe_cex"] += 1
                        res["cex"].append(dict(tid=t.tid, label=label, vals=H.jsonable(vals), facts=H.jsonable(cr.get("facts", {})), confirmed=True,
                                               detail="input solved for a path that leaves the environment model (" + str(p.value)[:80] + "); assertion evaluated on the real code",
                                               args=H.jsonable(list(t.args))))
            if not discrete:
                break
            s.add(z3.Or(*[d != m.eval(d, model_completion=True) for d in discrete]))
    finally:
        s.pop()


def _path_consts(pc):
    import z3

    import pvharness as H

    acc = {}
    for c in pc:
        H._consts(c, acc)
    return list(acc.values())


def _worker(modname, tid, tier, seed, conn):
    try:
        sys.setrecursionlimit(10000)
        mod = importlib.import_module(modname)
        ts = {t.tid: t for t in mod.templates(tier, seed)}
        t = ts[tid]
        if hasattr(mod, "run_template"):
            res = mod.run_template(t, tier, seed)
        else:
            res = explore_template(t, tier, seed)
        conn.send(res)
    except BaseException as exc:  # noqa: BLE001
        conn.send(dict(tid=tid, fatal="".join(traceback.format_exception(type(exc), exc, exc.__traceback__))[-1500:]))
    finally:
        conn.close()


# ------------------------------------------------------------------------------------------------ scheduler
def run_templates(modname, tids, tier, seed, jobs=None, hard_timeout=None):
    jobs = jobs or int(os.environ.get("PVERIF_JOBS", "0")) or min(16, os.cpu_count() or 4)
    hard_timeout = hard_timeout or int(os.environ.get("PVERIF_HARD_TIMEOUT", "0")) or (1500 if tier == "quick" else 7200)
    ctx = mp.get_context("fork")
    pending, running, results = list(tids), {}, {}
    while pending or running:
        while pending and len(running) < jobs:
            tid = pending.pop(0)
            a, b = ctx.Pipe(duplex=False)
            pr = ctx.Process(target=_worker, args=(modname, tid, tier, seed, b), daemon=True)
            pr.start()
            b.close()
            running[tid] = (pr, a, time.time())
        time.sleep(0.02)
        for tid, (pr, a, t0) in list(running.items()):
            if a.poll():
                try:
                    results[tid] = a.recv()
                except EOFError:
                    results[tid] = dict(tid=tid, fatal="worker died without result")
                pr.join(5)
                del running[tid]
            elif not pr.is_alive():
                results[tid] = dict(tid=tid, fatal=f"worker exited with code {pr.exitcode}")
                del running[tid]
            elif time.time() - t0 > hard_timeout:
                pr.terminate()
                results[tid] = dict(tid=tid, fatal=f"hard timeout after {hard_timeout}s", timed_out=True)
                del running[tid]
    return [results[t] for t in tids]


# ------------------------------------------------------------------------------------------------ known findings
def load_known():
    path = os.path.join(VERIF, "known_findings.json")
    if not os.path.exists(path):
        return []
    return json.load(open(path))["findings"]


def match_known(pid, cex, known):
    for k in known:
        if k.get("status") == "fixed" or k["property"] != pid:
            continue
        if not re.search(k.get("template", ""), cex["tid"]):
            continue
        if not re.search(k.get("label", ""), cex["label"]):
            continue
        when = k.get("when")
        if when:
            env = dict(cex.get("facts") or {})
            env.update({"vals": cex.get("vals") or {}, "facts": cex.get("facts") or {}, "args": cex.get("args")})
            try:
                g = {"__builtins__": {"any": any, "all": all, "len": len, "str": str, "int": int, "abs": abs, "range": range,
                                      "isinstance": isinstance, "float": float, "set": set, "sorted": sorted,
                                      "min": min, "max": max, "sum": sum, "bool": bool, "list": list, "tuple": tuple}}
                g.update(env)  # as globals: comprehensions inside the predicate must see them
                if not eval(when, g):
                    continue
            except Exception:  # noqa: BLE001 - a predicate that cannot be evaluated does not match
                continue
        return k
    return None


# ------------------------------------------------------------------------------------------------ check driver
def run_check(pid, tier, modname=None, only=None):
    t0 = time.time()
    seed = int(os.environ.get("VERIF_SEED", "0") or 0)
    modname = modname or f"props.{pid.lower()}"
    sys.path.insert(0, os.path.join(VERIF, "lib"))
    mod = importlib.import_module(modname)
    ts = mod.templates(tier, seed)
    if only:
        ts = [t for t in ts if re.search(only, t.tid)]
    tids = [t.tid for t in ts]
    assert len(set(tids)) == len(tids), "duplicate template ids"
    results = run_templates(modname, tids, tier, seed)
    return finish(pid, tier, seed, mod, results, t0)


def finish(pid, tier, seed, mod, results, t0, extra_cov=None):
    known = load_known()
    agg = Counter()
    gaps, herr, mism, samples, cex_all, truncated, fatal = Counter(), [], [], [], [], [], []
    for r in results:
        if "fatal" in r:
            fatal.append((r["tid"], r["fatal"]))
            continue
        for k in ("paths", "ret_paths", "obligations", "discharged", "trivial", "inconclusive", "replayed_ok", "queries", "decisions", "gap_probes", "gap_probe_cex"):
            agg[k] += r.get(k, 0)
        agg["solver_time"] += r.get("solver_time", 0)
        for g, n in r.get("gaps", {}).items():
            gaps[g] += n
        herr += [(r["tid"], h) for h in r.get("harness_errors", [])]
        mism += [(r["tid"], m) for m in r.get("mismatches", [])]
        if len(samples) < 6:
            samples += r.get("samples", [])[:1]
        cex_all += r.get("cex", [])
        if not r.get("exhausted", True):
            truncated.append(r["tid"])
        if r.get("twin_refuted") is False and r.get("ret_paths", 0) > 0:
            herr.append((r["tid"], "negated-oracle twin not refuted: harness does not observe the code"))
        if r.get("paths", 0) > 0 and r.get("ret_paths", 0) == 0 and not r.get("allow_all_gap"):
            herr.append((r["tid"], "all paths are model gaps: " + str(list(r.get("gaps", {}))[:2])))
    lines, violations, known_hit, unconfirmed = [], [], {}, []
    for c in cex_all:
        if not c["confirmed"]:
            unconfirmed.append(c)
            continue
        k = match_known(pid, c, known)
        if k is not None:
            known_hit.setdefault(k["id"], (k, 0))
            known_hit[k["id"]] = (k, known_hit[k["id"]][1] + 1)
        else:
            violations.append(c)
    scratch = os.environ.get("PVERIF_SCRATCH")  # mutant runs: keep replays and evidence away from the committed ones
    outdir = os.path.join(scratch or os.path.join(VERIF, "out"), "replays", pid)
    os.makedirs(outdir, exist_ok=True)
    for f in os.listdir(outdir):
        os.remove(os.path.join(outdir, f))
    seen = set()
    vfiles = []
    for i, c in enumerate(violations):
        key = (c["tid"], c["label"])
        path = os.path.join(outdir, f"cex_{i:03d}.json")
        json.dump(dict(property=pid, module=mod.__name__, tier=tier, seed=seed, **c), open(path, "w"), indent=1, default=str)
        vfiles.append(path)
        if key not in seen and len(seen) < 12:
            seen.add(key)
            lines.append(f"VIOLATION property={pid} replay={path}")
            lines.append(f"  template={c['tid']} assertion={c['label']} inputs={json.dumps(c['vals'], default=str)[:300]} facts={json.dumps(c['facts'], default=str)[:200]}")
    for kid, (k, n) in sorted(known_hit.items()):
        lines.append(f"KNOWN-FINDING: property={pid} {k['what']} [{kid}; {n} counterexample(s) this run]")
    harness_problem = bool(fatal or herr or mism or unconfirmed) or agg["ret_paths"] == 0
    cov = dict(
        states=agg["ret_paths"], transitions=max(agg["decisions"], 1), traces_validated_against_impl=agg["replayed_ok"],
        samples=samples or [{"note": "no path returned"}],
        templates=len(results), paths_total=agg["paths"], obligations=agg["obligations"], discharged=agg["discharged"],
        discharged_syntactically=agg["trivial"], inconclusive=agg["inconclusive"],
        counterexamples_confirmed=len([c for c in cex_all if c["confirmed"]]), counterexamples_known=sum(n for _, n in known_hit.values()),
        counterexamples_unlisted=len(violations), counterexamples_not_reproduced=len(unconfirmed),
        known_findings_hit=sorted(known_hit), model_gap_paths=sum(gaps.values()), model_gap_reasons=dict(gaps.most_common(12)),
        model_gap_concrete_probes=agg["gap_probes"], model_gap_probe_counterexamples=agg["gap_probe_cex"],
        shim_real_mismatches=len(mism), truncated_templates=truncated, fatal_templates=[f[0] for f in fatal],
        solver_queries=agg["queries"], solver_time_s=round(agg["solver_time"], 2),
        functions_encoded=getattr(mod, "FUNCTIONS_ENCODED", []), bounds=getattr(mod, "BOUNDS", {}).get(tier, getattr(mod, "BOUNDS", {})),
        stubs=getattr(mod, "STUBS", []), per_template=[{k: r.get(k) for k in ("tid", "paths", "ret_paths", "obligations", "discharged", "inconclusive", "wall", "exhausted", "kinds")} for r in results if "fatal" not in r][:400],
        engine="symx (re-execution DFS over z3-decided branches) on the symframe/sympolars environment models; z3 " + _z3v(),
        explanation=getattr(mod, "EXPLANATION", ""),
    )
    if extra_cov:
        cov.update(extra_cov)
    ev = dict(property_id=pid, tier=tier, seed=seed, level="model_checking", coverage=cov,
              assumptions=list(getattr(mod, "ASSUMPTIONS", [])), wall_s=round(time.time() - t0, 2), violations=len(violations))
    evdir = os.path.join(scratch, "evidence") if scratch else os.path.join(VERIF, "evidence")
    os.makedirs(evdir, exist_ok=True)
    json.dump(ev, open(os.path.join(evdir, f"{pid}.json"), "w"), indent=1, default=str)
    for l in lines:
        print(l)
    print(f"[{pid} {tier}] templates={len(results)} paths={agg['paths']} returned={agg['ret_paths']} replayed_ok={agg['replayed_ok']} "
          f"obligations={agg['obligations']} discharged={agg['discharged']} inconclusive={agg['inconclusive']} "
          f"cex_confirmed={cov['counterexamples_confirmed']} known={cov['counterexamples_known']} unlisted={len(violations)} "
          f"gaps={sum(gaps.values())} queries={agg['queries']} solver_s={cov['solver_time_s']} wall={ev['wall_s']}s")
    if gaps:
        print("  model gaps:", dict(gaps.most_common(5)))
    if truncated:
        print("  truncated (budget/max_paths):", truncated[:8])
    if agg["inconclusive"]:
        print(f"  INCONCLUSIVE: {agg['inconclusive']} obligation(s) returned unknown; they are not counted as discharged")
    if harness_problem:
        for tid, f in fatal[:5]:
            print(f"HARNESS-ERROR fatal in {tid}: {f[-700:]}")
        for tid, h in herr[:5]:
            print(f"HARNESS-ERROR {tid}: {h}")
        for tid, m in mism[:5]:
            print(f"HARNESS-ERROR shim/real mismatch in {tid}: {json.dumps(m, default=str)[:1200]}")
        for c in unconfirmed[:5]:
            print(f"HARNESS-ERROR counterexample not reproduced on the real code: {json.dumps(c, default=str)[:700]}")
        if agg["ret_paths"] == 0:
            print("HARNESS-ERROR nothing explored")
    if violations:
        return 1
    return 3 if harness_problem else 0


def _z3v():
    try:
        import z3

        return z3.get_version_string()
    except Exception:  # noqa: BLE001
        return "?"


def replay_file(path):
    c = json.load(open(path))
    sys.path.insert(0, os.path.join(VERIF, "lib"))
    mod = importlib.import_module(c["module"])
    if hasattr(mod, "replay"):
        return mod.replay(c)
    import pvharness as H

    ts = {t.tid: t for t in mod.templates(c.get("tier", "quick"), c.get("seed", 0))}
    if c["tid"] not in ts:
        ts = {t.tid: t for t in mod.templates("thorough", c.get("seed", 0))}
    t = ts[c["tid"]]
    r = t.fn(H.V(None, H.Vals(c["vals"])), *t.args)
    cl = dict(r.get("asserts", []))
    print("template:", c["tid"], "\ninputs:", json.dumps(c["vals"]), "\nfacts:", json.dumps(H.jsonable(r.get("facts", {})), default=str))
    if r.get("obs"):
        print("observation on the real code:", json.dumps(H.jsonable(H.comparable(r["obs"])), default=str)[:1500])
    for l, val in cl.items():
        print(f"  assertion {l}: {'holds' if val else 'VIOLATED'}")
    if c["label"] in cl and not cl[c["label"]]:
        print(f"VIOLATION property={c['property']} replay={path}")
        return 1
    print("not reproduced")
    return 0
