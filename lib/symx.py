"""symx — minimal symbolic executor for real Python code via proxy values and re-execution DFS (z3).

Values of the code under analysis are proxies wrapping z3 terms; only SymBool.__bool__ forks.  A harness function is
re-executed from scratch once per path; at every new decision both sides are checked for feasibility under the
current path condition, so every explored path is reachable.  DESIGN.md section 2.1.
"""
from __future__ import annotations

import time
from fractions import Fraction
from typing import Any, Callable, List, Optional, Sequence

import z3


class ModelGap(BaseException):
    """The shim/engine cannot model an operation; the path is inconclusive (not a violation, not a pass)."""


class PathAbort(BaseException):
    """Infeasible continuation."""


# --------------------------------------------------------------------------- engine
class Engine:
    def __init__(self, timeout_ms: int = 10000, seed: int = 0, max_paths: int = 20000, budget_s: float = 1e9):
        self.solver = z3.Solver()
        self.solver.set("timeout", timeout_ms)
        self.solver.set("random_seed", seed % (2**31))
        self.timeout_ms = timeout_ms
        self.budget_s = budget_s
        self.exhausted = False
        self._assumed = set()
        self._in_path = False
        self.assumptions: List[z3.BoolRef] = []
        self.queries = 0
        self.solver_time = 0.0
        self.decisions: List[bool] = []
        self.pos = 0
        self.pc: List[z3.BoolRef] = []
        self.pending: List[List[bool]] = []
        self.max_paths = max_paths
        self.n_decisions = 0
        self.fresh_ctr = 0
        self._scopes0 = 0

    # -- solver
    def check(self, *extra) -> str:
        t = time.time()
        self.queries += 1
        r = str(self.solver.check(*extra))
        self.solver_time += time.time() - t
        return r

    def assume(self, cond):
        """Global assumption (input domain).  Re-executions re-issue the same assumptions: de-duplicated by AST id.
        An assumption first issued in the middle of a path also constrains the rest of that path."""
        k = cond.get_id()
        if k in self._assumed:
            return
        self._assumed.add(k)
        self.assumptions.append(cond)
        if self._in_path:
            self.solver.add(cond)

    def fresh(self, prefix: str, sort=None):
        self.fresh_ctr += 1
        name = f"{prefix}!{self.fresh_ctr}"
        return z3.Const(name, sort if sort is not None else z3.IntSort())

    # -- branching
    def branch(self, cond) -> bool:
        cond = z3.simplify(cond)
        if z3.is_true(cond):
            return True
        if z3.is_false(cond):
            return False
        if self.pos < len(self.decisions):
            d = self.decisions[self.pos]
        else:
            rt = self.check(cond)
            rf = self.check(z3.Not(cond))
            if rt == "unknown" or rf == "unknown":
                raise ModelGap("solver unknown at branch")
            if rt == "sat" and rf == "sat":
                self.pending.append(self.decisions[: self.pos] + [False])
                d = True
            elif rt == "sat":
                d = True
            elif rf == "sat":
                d = False
            else:
                raise PathAbort("infeasible")
            self.decisions = self.decisions[: self.pos] + [d]
        self.pos += 1
        self.n_decisions += 1
        c = cond if d else z3.Not(cond)
        self.pc.append(c)
        self.solver.add(c)
        return d

    def constrain(self, cond):
        """Add a path-local constraint that is not a branch (e.g. the contract of a nondeterministic stub)."""
        self.pc.append(cond)
        self.solver.add(cond)
        if self.check() != "sat":
            raise PathAbort("constraint infeasible")

    def choice(self, name: str, options: Sequence[Any]):
        """Symbolic selection among concrete options (fork per option)."""
        z = z3.Int(name)
        self_opts = list(options)
        for i, o in enumerate(self_opts[:-1]):
            if self.branch(z == i):
                return o
        self.branch(z == len(self_opts) - 1)
        return self_opts[-1]

    def concretize_int(self, z, domain: Sequence[int]) -> int:
        for v in list(domain)[:-1]:
            if self.branch(z == v):
                return v
        last = list(domain)[-1]
        if not self.branch(z == last):
            raise ModelGap("value outside declared finite domain")
        return last

    # -- exploration
    def explore(self, fn: Callable[[], Any]):
        self.pending = [[]]
        results = []
        t_start = time.process_time()  # CPU time of this worker: a loaded machine must not shrink the exploration
        while self.pending and len(results) < self.max_paths and time.process_time() - t_start < self.budget_s:
            prefix = self.pending.pop()
            self.decisions, self.pos, self.pc = list(prefix), 0, []
            self.fresh_ctr = 0
            self.solver.push()
            for a in self.assumptions:
                self.solver.add(a)
            self._in_path = True
            try:
                try:
                    out = ("ret", fn())
                except (ModelGap, PathAbort) as g:
                    out = ("gap", g)
                except Exception as exc:  # noqa: BLE001 - outcome classification is the point
                    out = ("exc", exc)
                results.append(Path(list(self.pc), out[0], out[1]))
            finally:
                self._in_path = False
                self.solver.pop()
        self.exhausted = not self.pending
        return results

    # -- obligations
    def discharge(self, path: "Path", assertion, extra=(), block=()) -> "Obligation":
        """check pc ∧ assumptions ∧ extra ∧ ¬assertion.  `unknown` is retried once with a 6x timeout."""
        s = self.solver
        s.push()
        try:
            for a in self.assumptions:
                s.add(a)
            s.add(*path.pc)
            s.add(*extra)
            s.add(*block)
            s.add(z3.Not(assertion) if z3.is_expr(assertion) else z3.BoolVal(not assertion))
            r = self.check()
            if r == "unknown":
                s.set("timeout", self.timeout_ms * 6)
                try:
                    r = self.check()
                finally:
                    s.set("timeout", self.timeout_ms)
            model = s.model() if r == "sat" else None
            return Obligation(r, model)
        finally:
            s.pop()

    def witness_preferring(self, path: "Path", decls, value: bool):
        """a model of the path in which as many Boolean variables as possible (greedily, in declaration order) take `value` —
        used to look at the concrete-only assertions away from the constructor defaults"""
        s = self.solver
        s.push()
        try:
            for a in self.assumptions:
                s.add(a)
            s.add(*path.pc)
            if self.check() != "sat":
                return None
            for d in decls:
                if not z3.is_bool(d):
                    continue
                s.push()
                s.add(d if value else z3.Not(d))
                if self.check() == "sat":
                    continue  # keep the constraint (the frame stays pushed; everything is popped at the end)
                s.pop()
            return s.model() if self.check() == "sat" else None
        finally:
            while s.num_scopes() > self._base_scopes(path):
                s.pop()

    def _base_scopes(self, path):
        return self._scopes0

    def witness(self, path: "Path"):
        s = self.solver
        s.push()
        try:
            for a in self.assumptions:
                s.add(a)
            s.add(*path.pc)
            r = self.check()
            if r == "unknown":
                s.set("timeout", self.timeout_ms * 6)
                try:
                    r = self.check()
                finally:
                    s.set("timeout", self.timeout_ms)
            self.last_witness_status = r
            return s.model() if r == "sat" else None
        finally:
            s.pop()


class Path:
    def __init__(self, pc, kind, value):
        self.pc, self.kind, self.value = pc, kind, value

    def __repr__(self):
        return f"<Path {self.kind} {str(self.value)[:80]} |pc|={len(self.pc)}>"


class Obligation:
    def __init__(self, result, model):
        self.result, self.model = result, model

    @property
    def discharged(self):
        return self.result == "unsat"


ENGINE: Optional[Engine] = None


def set_engine(e: Engine):
    global ENGINE
    ENGINE = e


def eng() -> Engine:
    assert ENGINE is not None
    return ENGINE


# --------------------------------------------------------------------------- lifting
def is_sym(x) -> bool:
    return isinstance(x, (SymBool, SymInt, SymReal, SymStr))


def lift_bool(x):
    import numpy as np

    if isinstance(x, SymBool):
        return x.z
    if isinstance(x, (bool, np.bool_)):
        return z3.BoolVal(bool(x))
    if z3.is_expr(x) and z3.is_bool(x):
        return x
    raise ModelGap(f"lift_bool {type(x)}")


def lift_num(x):
    """python/numpy/proxy number -> z3 Int or Real term."""
    import numpy as np

    if isinstance(x, (SymInt, SymReal)):
        return x.z
    if isinstance(x, (bool, np.bool_)):
        return z3.IntVal(int(x))
    if isinstance(x, (int, np.integer)):
        return z3.IntVal(int(x))
    if isinstance(x, (float, np.floating)):
        if x != x or x in (float("inf"), float("-inf")):
            raise ModelGap("nan/inf literal")
        fr = Fraction(float(x))
        return z3.RealVal(f"{fr.numerator}/{fr.denominator}")
    if z3.is_expr(x) and (z3.is_int(x) or z3.is_real(x)):
        return x
    raise ModelGap(f"lift_num {type(x)}")


def lift_str(x):
    if isinstance(x, SymStr):
        return x.z
    if type(x) is str or isinstance(x, str):
        return z3.StringVal(x)
    if z3.is_expr(x) and z3.is_string(x):
        return x
    raise ModelGap(f"lift_str {type(x)}")


def sb(z):
    """z3 Bool -> python bool when decided syntactically, else SymBool."""
    z = z3.simplify(z)
    if z3.is_true(z):
        return True
    if z3.is_false(z):
        return False
    return SymBool(z)


# --------------------------------------------------------------------------- proxies
class _Proxy:
    __slots__ = ("z",)

    def __init__(self, z):
        self.z = z

    def __deepcopy__(self, memo):
        return self

    def __copy__(self):
        return self

    def __reduce__(self):
        raise ModelGap("pickle of symbolic value")

    def __repr__(self):
        return f"<{type(self).__name__} {self.z}>"

    def __str__(self):
        return self.PLACEHOLDER

    def __format__(self, spec):
        return self.PLACEHOLDER

    def __hash__(self):
        raise ModelGap(f"hash({type(self).__name__})")


class SymBool(_Proxy):
    PLACEHOLDER = "<?bool>"

    def __bool__(self):
        return eng().branch(self.z)

    def _bin(self, o, f):
        try:
            return SymBool(f(self.z, lift_bool(o)))
        except ModelGap:
            return NotImplemented

    def __and__(self, o):
        return self._bin(o, z3.And)

    __rand__ = __and__

    def __or__(self, o):
        return self._bin(o, z3.Or)

    __ror__ = __or__

    def __xor__(self, o):
        return self._bin(o, z3.Xor)

    def __invert__(self):
        return SymBool(z3.Not(self.z))

    def __eq__(self, o):
        return self._bin(o, lambda a, b: a == b)

    def __ne__(self, o):
        return self._bin(o, lambda a, b: a != b)

    __hash__ = _Proxy.__hash__


class _SymNum(_Proxy):
    def _cmp(self, o, f):
        try:
            oz = lift_num(o)
        except ModelGap:
            return NotImplemented
        return SymBool(f(self.z, oz))

    def __lt__(self, o):
        return self._cmp(o, lambda a, b: a < b)

    def __le__(self, o):
        return self._cmp(o, lambda a, b: a <= b)

    def __gt__(self, o):
        return self._cmp(o, lambda a, b: a > b)

    def __ge__(self, o):
        return self._cmp(o, lambda a, b: a >= b)

    def __eq__(self, o):
        return self._cmp(o, lambda a, b: a == b)

    def __ne__(self, o):
        return self._cmp(o, lambda a, b: a != b)

    __hash__ = _Proxy.__hash__

    def __bool__(self):
        # truthiness of a number (`if not value`, `value or default`) is a decision like any other
        return eng().branch(self.z != 0)

    def _arith(self, o, f, rev=False):
        try:
            oz = lift_num(o)
        except ModelGap:
            return NotImplemented
        r = f(oz, self.z) if rev else f(self.z, oz)
        return wrap_num(r)

    def __add__(self, o):
        return self._arith(o, lambda a, b: a + b)

    __radd__ = __add__

    def __sub__(self, o):
        return self._arith(o, lambda a, b: a - b)

    def __rsub__(self, o):
        return self._arith(o, lambda a, b: a - b, rev=True)

    def __mul__(self, o):
        return self._arith(o, lambda a, b: a * b)

    __rmul__ = __mul__

    def __neg__(self):
        return wrap_num(-self.z)

    def __mod__(self, o):
        if isinstance(o, int) and o > 0 and z3.is_int(self.z):
            return SymInt(self.z % o)  # z3 mod with positive divisor == python %
        raise ModelGap("mod")

    def __abs__(self):
        return wrap_num(z3.If(self.z >= 0, self.z, -self.z))


class SymInt(_SymNum):
    PLACEHOLDER = "<?int>"

    def __floor__(self):
        return self

    def __ceil__(self):
        return self

    def __trunc__(self):
        return self


class SymReal(_SymNum):
    PLACEHOLDER = "<?float>"

    def __floor__(self):
        return SymInt(z3.ToInt(self.z))

    def __ceil__(self):
        return SymInt(-z3.ToInt(-self.z))


def wrap_num(z):
    return SymInt(z) if z3.is_int(z) else SymReal(z)


STR_LEN_CAP = 5


class SymStr(str):
    """str subclass so that `isinstance(x, str)` holds (pandera's object-dtype check); every operation that would
    look at the characters is overridden or raises ModelGap — the placeholder content must never be observed."""
    PLACEHOLDER = "<?str>"

    def __new__(cls, z):
        obj = str.__new__(cls, cls.PLACEHOLDER)
        obj.z = z
        return obj

    def __deepcopy__(self, memo):
        return self

    def __copy__(self):
        return self

    def __repr__(self):
        return f"<SymStr {self.z}>"

    def __str__(self):
        return self.PLACEHOLDER

    def __format__(self, spec):
        return self.PLACEHOLDER

    def __hash__(self):
        raise ModelGap("hash(SymStr)")

    def __eq__(self, o):
        try:
            return SymBool(self.z == lift_str(o))
        except ModelGap:
            return NotImplemented

    def __ne__(self, o):
        try:
            return SymBool(self.z != lift_str(o))
        except ModelGap:
            return NotImplemented

    def startswith(self, p, *a):
        return SymBool(z3.PrefixOf(lift_str(p), self.z))

    def endswith(self, p, *a):
        return SymBool(z3.SuffixOf(lift_str(p), self.z))

    def __contains__(self, p):
        return bool(SymBool(z3.Contains(self.z, lift_str(p))))

    def __bool__(self):
        return eng().branch(z3.Length(self.z) > 0)

    def __len__(self):
        # len() must be a python int: decide the length (one fork per possible value up to the cap; longer strings leave the model)
        return eng().concretize_int(z3.Length(self.z), range(0, STR_LEN_CAP + 1))

    def __iter__(self):
        raise ModelGap("iter(SymStr)")

    def __getitem__(self, k):
        raise ModelGap("SymStr[...]")

    def __add__(self, o):
        return SymStr(z3.Concat(self.z, lift_str(o)))

    def __radd__(self, o):
        return SymStr(z3.Concat(lift_str(o), self.z))


# --------------------------------------------------------------------------- model evaluation
def ev(model, t):
    """Evaluate a z3 term (or python value) under a model to a python value."""
    if isinstance(t, _Proxy):
        t = t.z
    if not z3.is_expr(t):
        return t
    v = model.eval(t, model_completion=True)
    if z3.is_int_value(v):
        return v.as_long()
    if z3.is_true(v):
        return True
    if z3.is_false(v):
        return False
    if z3.is_rational_value(v):
        fr = v.as_fraction()
        return float(fr)
    if z3.is_string_value(v):
        import re as _re

        return _re.sub(r"\\u\{([0-9a-fA-F]+)\}", lambda m: chr(int(m.group(1), 16)), v.as_string())
    if z3.is_algebraic_value(v):
        return float(v.approx(20).as_fraction())
    raise ModelGap(f"cannot evaluate {v}")
