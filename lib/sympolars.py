"""sympolars — polars *expression* algebra over z3 (check layer only).  Prototype (design-phase scratch).

Cells are (value term, null flag).  Boolean expressions follow polars' Kleene logic.
"""
from __future__ import annotations

import z3

from symx import ModelGap, lift_bool, lift_num, lift_str, sb
from symframe import regex_language, zand, zor, T, F


STR_MAXLEN = 4  # bound of the UTF-8 length encoding (len_bytes)


class Col:
    def __init__(self, vals, nulls, kind):
        self.vals, self.nulls, self.kind = list(vals), list(nulls), kind


def _lit(v, kind):
    if kind in ("int", "float"):
        return lift_num(v)
    if kind == "str":
        return lift_str(v)
    if kind == "bool":
        return lift_bool(v)
    raise ModelGap("literal kind")


class Expr:
    """Deferred expression: fn(frame) -> Col"""

    def __init__(self, fn, name=None):
        self.fn, self.name = fn, name

    def alias(self, name):
        return Expr(self.fn, name)

    # comparisons (null propagates)
    def _cmp(self, o, op):
        def f(fr):
            c = self.fn(fr)
            oz = _lit(o, c.kind)
            return Col([op(v, oz) for v in c.vals], c.nulls, "bool")
        return Expr(f, self.name)

    def eq(self, o): return self._cmp(o, lambda a, b: a == b)
    def ne(self, o): return self._cmp(o, lambda a, b: a != b)
    def gt(self, o): return self._cmp(o, lambda a, b: a > b)
    def ge(self, o): return self._cmp(o, lambda a, b: a >= b)
    def lt(self, o): return self._cmp(o, lambda a, b: a < b)
    def le(self, o): return self._cmp(o, lambda a, b: a <= b)

    def is_between(self, lo, hi, closed="both"):
        lo_op = (lambda a, b: a >= b) if closed in ("both", "left") else (lambda a, b: a > b)
        hi_op = (lambda a, b: a <= b) if closed in ("both", "right") else (lambda a, b: a < b)
        return self._cmp(lo, lo_op).and_(self._cmp(hi, hi_op))

    def is_in(self, values):
        def f(fr):
            c = self.fn(fr)
            vs = []
            for v in values:
                try:
                    vs.append(_lit(v, c.kind))
                except ModelGap:
                    pass
            return Col([zor(x == v for v in vs) for x in c.vals], c.nulls, "bool")
        return Expr(f, self.name)

    # Kleene logic
    def and_(self, o):
        def f(fr):
            a, b = self.fn(fr), o.fn(fr)
            vals = [z3.And(x, y) for x, y in zip(a.vals, b.vals)]
            # result null iff not decided: (a null or b null) and not (a is definite False or b is definite False)
            nulls = [z3.And(z3.Or(na, nb), z3.Not(z3.Or(z3.And(z3.Not(na), z3.Not(x)), z3.And(z3.Not(nb), z3.Not(y)))))
                     for x, y, na, nb in zip(a.vals, b.vals, a.nulls, b.nulls)]
            vals = [z3.If(z3.Or(z3.And(z3.Not(na), z3.Not(x)), z3.And(z3.Not(nb), z3.Not(y))), F, v)
                    for v, x, y, na, nb in zip(vals, a.vals, b.vals, a.nulls, b.nulls)]
            return Col(vals, nulls, "bool")
        return Expr(f, self.name)

    __and__ = and_

    def or_(self, o):
        def f(fr):
            a, b = self.fn(fr), o.fn(fr)
            true_a = [z3.And(z3.Not(na), x) for x, na in zip(a.vals, a.nulls)]
            true_b = [z3.And(z3.Not(nb), y) for y, nb in zip(b.vals, b.nulls)]
            vals = [z3.Or(ta, tb) for ta, tb in zip(true_a, true_b)]
            nulls = [z3.And(z3.Or(na, nb), z3.Not(z3.Or(ta, tb))) for na, nb, ta, tb in zip(a.nulls, b.nulls, true_a, true_b)]
            return Col(vals, nulls, "bool")
        return Expr(f, self.name)

    __or__ = or_

    def not_(self):
        def f(fr):
            c = self.fn(fr)
            return Col([z3.Not(v) for v in c.vals], c.nulls, "bool")
        return Expr(f, self.name)

    def is_null(self):
        def f(fr):
            c = self.fn(fr)
            return Col(c.nulls, [F] * len(c.nulls), "bool")
        return Expr(f, self.name)

    def is_not_null(self):
        return self.is_null().not_()

    def all(self, ignore_nulls=True):
        def f(fr):
            c = self.fn(fr)
            live = zip(c.vals, c.nulls, fr.present)
            if not ignore_nulls:
                raise ModelGap("all(ignore_nulls=False)")
            return Col([zand(z3.Implies(z3.And(p, z3.Not(n)), v) for v, n, p in live)], [F], "bool")
        return Expr(f, self.name)

    @property
    def str(self):
        return _StrNS(self)


class _StrNS:
    def __init__(self, e):
        self.e = e

    def _res(self, g):
        def f(fr):
            c = self.e.fn(fr)
            if c.kind != "str":
                raise ModelGap("str namespace on non-str")
            return g(c)
        return Expr(f, self.e.name)

    def contains(self, pattern, literal=False, strict=True):
        if literal:
            return self._res(lambda c: Col([z3.Contains(v, z3.StringVal(pattern)) for v in c.vals], c.nulls, "bool"))
        lang = regex_language(pattern, "search")
        return self._res(lambda c: Col([z3.InRe(v, lang) for v in c.vals], c.nulls, "bool"))

    def starts_with(self, p):
        return self._res(lambda c: Col([z3.PrefixOf(z3.StringVal(p), v) for v in c.vals], c.nulls, "bool"))

    def ends_with(self, p):
        return self._res(lambda c: Col([z3.SuffixOf(z3.StringVal(p), v) for v in c.vals], c.nulls, "bool"))

    def len_bytes(self):
        """UTF-8 byte count, exact for strings of at most STR_MAXLEN characters (the bound is added to the input assumptions)"""
        def g(c):
            from symx import eng

            out = []
            for v in c.vals:
                eng().assume(z3.Length(v) <= STR_MAXLEN)
                tot = z3.IntVal(0)
                for k in range(STR_MAXLEN):
                    code = z3.StrToCode(z3.SubString(v, k, 1))
                    tot = tot + z3.If(z3.IntVal(k) < z3.Length(v), z3.If(code < 128, 1, z3.If(code < 2048, 2, z3.If(code < 65536, 3, 4))), 0)
                out.append(tot)
            return out
        return self._res(lambda c: Col(g(c), c.nulls, "int"))

    def len_chars(self):
        return self._res(lambda c: Col([z3.Length(v) for v in c.vals], c.nulls, "int"))


def col(name):
    def f(fr):
        if name == "*":
            if len(fr.cols) != 1:
                raise ModelGap("col('*') on multi-column frame")
            return next(iter(fr.cols.values()))
        return fr.cols[name]
    return Expr(f, name)


def lit(v):
    def f(fr):
        n = len(fr.present)
        kind = "bool" if isinstance(v, bool) else "int" if isinstance(v, int) else "str"
        return Col([_lit(v, kind)] * n, [F] * n, kind)
    return Expr(f, "literal")


class _Schema(dict):
    def names(self):
        return list(self)

    def dtypes(self):
        return list(self.values())


class LazyFrame:
    """Doubles as DataFrame (collect() is the identity)."""

    def __init__(self, data=None, present=None):
        if isinstance(data, LazyFrame):
            self.cols, self.present = dict(data.cols), list(data.present)
            return
        self.cols = dict(data or {})
        n = len(next(iter(self.cols.values())).vals) if self.cols else 0
        self.present = list(present) if present is not None else [T] * n

    def collect(self):
        return self

    def lazy(self):
        return self

    def clone(self):
        return LazyFrame(self)

    def collect_schema(self):
        return _Schema({k: c.kind for k, c in self.cols.items()})

    @property
    def columns(self):
        return list(self.cols)

    def _eval(self, exprs):
        exprs = exprs if isinstance(exprs, (list, tuple)) else [exprs]
        out = {}
        for ex in exprs:
            if isinstance(ex, str):
                ex = col(ex)
            c = ex.fn(self)
            out[ex.name] = c
        return out

    def select(self, *exprs):
        exprs = exprs[0] if len(exprs) == 1 else list(exprs)
        out = self._eval(exprs)
        n = {len(c.vals) for c in out.values()}
        if n == {1} and len(self.present) != 1:
            return LazyFrame(out, present=[T])  # aggregation
        return LazyFrame(out, present=self.present)

    def with_columns(self, *exprs, **named):
        new = dict(self.cols)
        for ex in exprs:
            new.update(self._eval(ex))
        for k, ex in named.items():
            new[k] = ex.fn(self)
        return LazyFrame(new, present=self.present)

    def rename(self, mapping):
        return LazyFrame({mapping.get(k, k): c for k, c in self.cols.items()}, present=self.present)

    def filter(self, ex):
        c = ex.fn(self)
        newp = [z3.And(p, z3.Not(n), v) for p, v, n in zip(self.present, c.vals, c.nulls)]  # null predicate drops the row
        return LazyFrame(self.cols, present=newp)

    def item(self):
        (c,) = self.cols.values()
        assert len(c.vals) == 1
        return sb(z3.And(z3.Not(c.nulls[0]), c.vals[0]))


DataFrame = LazyFrame


def concat(items, how="vertical"):
    if how != "horizontal":
        raise ModelGap("concat vertical")
    cols = {}
    for it in items:
        cols.update(it.cols)
    return LazyFrame(cols, present=items[0].present)


def fold(acc, function, exprs):
    raise ModelGap("pl.fold")
