"""Oracles written from pandera's documentation, independent of pandera's code: a backend-neutral schema spec is
turned (a) into a real pandera schema whose parameters are provider values (symbolic or concrete) and (b) into z3
formulas over the same variables stating when the data satisfies the declared constraints and which cells
violate them.  DESIGN.md section 4 (C01, C02, C11, C20)."""
from __future__ import annotations

import re

import z3

from symframe import regex_language

T, F = z3.BoolVal(True), z3.BoolVal(False)
PYT = {"int": int, "float": float, "str": str, "bool": bool, "Int": "Int64"}


def zand(xs):
    xs = list(xs)
    return z3.And(*xs) if xs else T


def zor(xs):
    xs = list(xs)
    return z3.Or(*xs) if xs else F


# ---------------------------------------------------------------------------------------------- check specs
class CheckSpec:
    """name: built-in name; P: parameters as provider values (python or proxies); ignore_na bool."""

    def __init__(self, name, ignore_na=True, **P):
        self.name, self.ignore_na, self.P = name, ignore_na, P

    def build(self, Check, **extra):
        P, kw = self.P, dict(ignore_na=self.ignore_na, **extra)
        n = self.name
        if n in ("eq", "ne", "gt", "ge"):
            return getattr(Check, n)(P["a"], **kw)
        if n in ("lt", "le"):
            return getattr(Check, n)(P["b"], **kw)
        if n == "in_range":
            return Check.in_range(P["a"], P["b"], P["imin"], P["imax"], **kw)
        if n in ("isin", "notin"):
            return getattr(Check, n)(P["set"], **kw)
        if n in ("str_startswith", "str_endswith"):
            return getattr(Check, n)(P["s"], **kw)
        if n in ("str_contains", "str_matches"):
            return getattr(Check, n)(P["pat"], **kw)
        if n == "str_length":
            return Check.str_length(P.get("minl"), P.get("maxl"), **kw)
        raise KeyError(n)

    def pred(self, v, x):
        """documented element predicate on a NON-null element term x"""
        P, n = {k: (v.z(val) if not isinstance(val, (list, tuple)) else [v.z(u) for u in val]) for k, val in self.P.items()}, self.name
        if n == "eq":
            return x == P["a"]
        if n == "ne":
            return x != P["a"]
        if n == "gt":
            return x > P["a"]
        if n == "ge":
            return x >= P["a"]
        if n == "lt":
            return x < P["b"]
        if n == "le":
            return x <= P["b"]
        if n == "in_range":
            return z3.And(z3.If(P["imin"], P["a"] <= x, P["a"] < x), z3.If(P["imax"], x <= P["b"], x < P["b"]))
        if n == "isin":
            return zor(x == u for u in P["set"])
        if n == "notin":
            return zand(x != u for u in P["set"])
        if n == "str_startswith":
            return z3.PrefixOf(P["s"], x)
        if n == "str_endswith":
            return z3.SuffixOf(P["s"], x)
        if n == "str_contains":
            return z3.InRe(x, regex_language(self.P["pat"], "search"))
        if n == "str_matches":
            return z3.InRe(x, regex_language(self.P["pat"], "match"))
        if n == "str_length":
            c = []
            if self.P.get("minl") is not None:
                c.append(z3.Length(x) >= P["minl"])
            if self.P.get("maxl") is not None:
                c.append(z3.Length(x) <= P["maxl"])
            return zand(c)
        raise KeyError(n)

    def on_null(self):
        """value of the documented predicate on a null element when nulls are NOT ignored: a comparison with a
        missing value is false, hence its negations (ne, notin) are true."""
        return T if self.ignore_na else (T if self.name in ("ne", "notin") else F)

    def ok_cell(self, v, x, null):
        return z3.If(null, self.on_null(), self.pred(v, x))

    def descr(self):
        return self.name + ("" if self.ignore_na else "/na")


def numeric_check(v, name, ignore_na=True, tag=""):
    P = {}
    if name in ("eq", "ne", "gt", "ge", "in_range"):
        P["a"] = v.int("a" + tag)
    if name in ("lt", "le", "in_range"):
        P["b"] = v.int("b" + tag)
    if name == "in_range":
        P["imin"], P["imax"] = v.bool("imin" + tag), v.bool("imax" + tag)
    if name in ("isin", "notin"):
        P["set"] = [1, 2, 3]
    return CheckSpec(name, ignore_na, **P)


import re as _re

# the last two are COMPILED patterns (str_matches / str_contains accept them): their flags are part of the pattern
STR_PATTERNS = ["a|b[0-9]+", "^a[0-9]+$", "ab", "(x|yz)+c?", _re.compile("^ab[0-9]$", _re.IGNORECASE), _re.compile("b[x-z]")]


def string_check(v, name, ignore_na=True, pat=None, tag=""):
    P = {}
    if name in ("eq", "ne"):
        P["a"] = "ab"
    if name in ("isin", "notin"):
        P["set"] = ["a", "ab"]
    if name in ("str_startswith", "str_endswith"):
        P["s"] = "ab"
    if name in ("str_contains", "str_matches"):
        P["pat"] = pat or STR_PATTERNS[0]
    if name == "str_length":
        # bounds are solver variables (0 included: `not bound` and `bound is None` differ exactly there); None-ness is a choice
        P["minl"] = v.int("minl" + tag, 0, 4) if v.choice("minl_set" + tag, [True, False]) else None
        P["maxl"] = v.int("maxl" + tag, 0, 4) if v.choice("maxl_set" + tag, [True, False]) else None
    return CheckSpec(name, ignore_na, **P)


NUMERIC_CHECKS = ["eq", "ne", "gt", "ge", "lt", "le", "in_range", "isin", "notin"]
STRING_CHECKS = ["eq", "ne", "isin", "notin", "str_startswith", "str_endswith", "str_contains", "str_matches", "str_length"]


# ---------------------------------------------------------------------------------------------- field oracle
def eq_cell(xs, ns, i, j):
    """pandas' notion of equal cells for duplicate detection: null = null"""
    return z3.Or(z3.And(ns[i], ns[j]), z3.And(z3.Not(ns[i]), z3.Not(ns[j]), xs[i] == xs[j]))


def dup_rows(n, eq, keep, present=None):
    """row i is reported as a duplicate under report_duplicates=keep ('exclude_first'|'exclude_last'|'all');
    eq(i, j) z3 term; restricted to `present` rows."""
    pres = present if present is not None else [T] * n
    out = []
    for i in range(n):
        js = range(0, i) if keep == "exclude_first" else range(i + 1, n) if keep == "exclude_last" else [j for j in range(n) if j != i]
        out.append(z3.And(pres[i], zor(z3.And(pres[j], eq(i, j)) for j in js)))
    return out


class FieldSpec:
    """One column / series / index level: kind, nullable, unique, checks (CheckSpec list), report_duplicates."""

    def __init__(self, kind, nullable=False, unique=False, checks=(), report_duplicates="all", required=True, regex=False,
                 coerce=False, default=None, name=None):
        self.kind, self.nullable, self.unique, self.checks = kind, nullable, unique, list(checks)
        self.report_duplicates, self.required, self.regex, self.coerce, self.default, self.name = report_duplicates, required, regex, coerce, default, name

    def row_violations(self, v, xs, ns, present=None):
        """dict constraint-label -> list of per-row violation terms (over the rows marked present)."""
        n = len(xs)
        pres = present if present is not None else [T] * n
        nullable, unique = v.z(self.nullable), v.z(self.unique)
        out = {"nullable": [z3.And(pres[i], z3.Not(nullable), ns[i]) for i in range(n)]}
        dups = dup_rows(n, lambda i, j: eq_cell(xs, ns, i, j), self.report_duplicates, pres)
        out["unique"] = [z3.And(unique, d) for d in dups]
        for k, c in enumerate(self.checks):
            out[f"check{k}:{c.name}"] = [z3.And(pres[i], z3.Not(c.ok_cell(v, xs[i], ns[i]))) for i in range(n)]
        return out

    def satisfied(self, v, xs, ns, present=None):
        viol = self.row_violations(v, xs, ns, present)
        return z3.Not(zor(t for ts in viol.values() for t in ts))


def build_series_schema(pa, Check, fs: FieldSpec, v, **kw):
    return pa.SeriesSchema(PYT[fs.kind], checks=[c.build(Check) for c in fs.checks], nullable=fs.nullable, unique=fs.unique,
                           report_duplicates=fs.report_duplicates, coerce=fs.coerce, name=fs.name, **kw)


def build_column(pa, Check, fs: FieldSpec, **kw):
    return pa.Column(PYT[fs.kind], checks=[c.build(Check) for c in fs.checks], nullable=fs.nullable, unique=fs.unique,
                     report_duplicates=fs.report_duplicates, coerce=fs.coerce, required=fs.required, regex=fs.regex,
                     default=fs.default, **kw)


# ---------------------------------------------------------------------------------------------- frame oracle
class FrameSpec:
    """columns: ordered dict key -> FieldSpec (key is a label or, with regex=True, a pattern);
    strict in {False, True, 'filter'}; ordered bool; unique: None | list of labels (joint uniqueness)."""

    def __init__(self, columns, strict=False, ordered=False, unique=None, report_duplicates="all", index=None):
        self.columns, self.strict, self.ordered, self.unique, self.report_duplicates, self.index = columns, strict, ordered, unique, report_duplicates, index

    def matches(self, labels):
        """schema key -> list of frame labels it governs (python `re.match` is the documented regex semantics)."""
        out = {}
        for key, fs in self.columns.items():
            if fs.regex:
                seen = []
                for l in labels:
                    if isinstance(l, str) and re.match(key, l) and l not in seen:
                        seen.append(l)
                out[key] = seen
            else:
                out[key] = [key] if key in labels else []
        return out

    def label_level_ok(self, arrangement):
        """(ok, reason) for the constraints that only depend on the column labels and physical kinds."""
        labels = [a[0] for a in arrangement]
        kinds = {}
        for a in arrangement:
            kinds.setdefault(a[0], []).append(a[1])
        m = self.matches(labels)
        for key, fs in self.columns.items():
            if fs.required and not m[key]:
                return False, "missing required column"
        governed = [l for key in self.columns for l in m[key]]
        if self.strict is True and any(l not in governed for l in labels):
            return False, "column not in schema"
        if self.ordered:
            schema_order = list(dict.fromkeys(governed))
            seq = [l for l in dict.fromkeys(labels) if l in governed]
            if seq != schema_order:
                return False, "column out of order"
        for key, fs in self.columns.items():
            for l in m[key]:
                if any(k != fs.kind for k in kinds[l]) and not fs.coerce:
                    return False, "wrong dtype"
        return True, ""

    def row_violations(self, v, arrangement, cells, present=None):
        """(column label, constraint) -> per-row violation terms; cells: label -> (xs, ns).  Only for columns whose
        physical kind is the declared one."""
        labels = [a[0] for a in arrangement]
        m = self.matches(labels)
        out = {}
        for key, fs in self.columns.items():
            for l in m[key]:
                xs, ns = cells[l]
                for cname, ts in fs.row_violations(v, xs, ns, present).items():
                    out[(l, cname)] = ts
        if self.unique:
            # a list of labels is one jointly unique set; a list of lists declares several sets, each of which must hold
            sets = self.unique if isinstance(self.unique[0], (list, tuple)) else [self.unique]
            n = len(next(iter(cells.values()))[0]) if cells else 0
            pres = present if present is not None else [T] * n
            per_set = []
            for one in sets:
                subset = [l for l in one if l in labels]

                def eqrow(i, j, subset=subset):
                    return zand(eq_cell(cells[l][0], cells[l][1], i, j) for l in subset)

                per_set.append(dup_rows(n, eqrow, self.report_duplicates, pres) if subset else [])
            out[("*", "joint_unique")] = per_set[0] if len(per_set) == 1 else [zor(ts[i] for ts in per_set if ts) for i in range(n)]
        return out

    def satisfied(self, v, arrangement, cells, present=None):
        ok, _ = self.label_level_ok(arrangement)
        if not ok:
            return F
        viol = self.row_violations(v, arrangement, cells, present)
        return z3.Not(zor(t for ts in viol.values() for t in ts))

    def build(self, pa, Check, **kw):
        cols = {key: build_column(pa, Check, fs) for key, fs in self.columns.items()}
        return pa.DataFrameSchema(cols, strict=self.strict, ordered=self.ordered, unique=self.unique,
                                  report_duplicates=self.report_duplicates, **kw)
