"""Shared templates: one function per schema shape that runs the REAL pandera on a provider-made object (symbolic
shim object or real pandas object) and returns the observation plus the full set of labelled assertions.  Property
modules select the labels they claim (`pick`)."""
from __future__ import annotations

from typing import Optional as Opt

import z3

from pvinstall import install

install()
import pandera as pa  # noqa: E402
from pandera import Check  # noqa: E402

import pvharness as H  # noqa: E402
import pvoracle as O  # noqa: E402
import symframe  # noqa: E402
import pandas as real_pd  # noqa: E402

KINDS = {"a": "float", "b": "int", "x": "int", "a1": "float", "a2": "float", "ba3": "float", "s": "str"}


def pick(fn, labels):
    """template fn restricted to the assertion labels (prefix match) a property claims"""

    def wrapped(v, *args):
        r = fn(v, *args)
        r["asserts"] = [(l, c) for l, c in r["asserts"] if any(l == p or l.startswith(p + ":") or l.startswith(p + "/") for p in labels)]
        return r

    wrapped.__name__ = fn.__name__
    return wrapped


def is_frame(x):
    return isinstance(x, (symframe.DataFrame, real_pd.DataFrame))


def is_series(x):
    return isinstance(x, (symframe.Series, real_pd.Series))


def kind_of_container(x):
    return "DataFrame" if is_frame(x) else "Series" if is_series(x) else type(x).__name__


def ctor_rejects(v, cs):
    """documented constructor errors of the built-ins"""
    if cs.name == "in_range":
        a, b = v.z(cs.P["a"]), v.z(cs.P["b"])
        return z3.Or(a > b, z3.And(a == b, z3.Or(z3.Not(v.z(cs.P["imin"])), z3.Not(v.z(cs.P["imax"])))))
    if cs.name == "str_length":  # documented: at least one of min_value / max_value must be given
        return z3.BoolVal(cs.P.get("minl") is None and cs.P.get("maxl") is None)
    return z3.BoolVal(False)


def channel_ok(o):
    return not o["kind"].startswith("leak:")


# ------------------------------------------------------------------ Series schema × one built-in check
def series_case(v, kind, cname, N, ina, pat=None, lazy=False):
    ser = v.series("x", kind, N, sname="s", labels="l")
    snap = H.snapshot(ser)
    mk = O.numeric_check if kind in ("int", "float", "Int") else O.string_check
    cs = mk(v, cname, ina, **({"pat": pat} if pat else {}))
    fs = O.FieldSpec(kind, nullable=v.bool("nullable"), unique=v.bool("unique"), checks=[cs], name="s",
                     report_duplicates=v.choice("rd", ["all", "exclude_first", "exclude_last"]))
    try:
        schema = O.build_series_schema(pa, Check, fs, v)
    except ValueError:
        # argument validation of the constructor (documented: "max_value must not be smaller than min_value")
        return dict(obs=None, asserts=[("ctor_error_iff_documented", v.holds(ctor_rejects(v, cs)))], facts=dict(kind="ctor ValueError"))
    o = H.outcome(lambda: schema.validate(ser, lazy=lazy))
    xs, ns = v.cells("x", kind, N, kind in ("float", "str", "Int"))
    spec = z3.And(fs.satisfied(v, xs, ns), z3.Not(ctor_rejects(v, cs)))
    asserts = [("verdict", v.iff(o["kind"] == "accept", spec)),
               ("channel", v.holds(channel_ok(o))),
               ("input_unchanged", H.equal_to_snapshot(v, ser, snap))]
    if o["kind"] == "accept":
        asserts.append(("output_equals_input", H.equal_to_snapshot(v, o["out"], snap)))
        asserts.append(("kind_preserved", v.holds(is_series(o["out"]))))
    return dict(obs=o, asserts=asserts, facts=dict(kind=o["kind"], reason=o.get("reason")))


# ------------------------------------------------------------------ DataFrameSchema over column arrangements
def frame_case(v, arrangement, strict, ordered, N, opts):
    arr = [(c, opts.get("kinds", KINDS)[c]) for c in arrangement]
    lazy = bool(opts.get("lazy"))
    df = v.frame(arr, N, labels="l")
    snap = H.snapshot(df)
    ca = O.numeric_check(v, opts.get("check_a", "ge"), opts.get("ina", True), tag="A")
    cb = O.numeric_check(v, opts.get("check_b", "isin"), True, tag="B")
    fa = O.FieldSpec("float", nullable=v.bool("nullable"), unique=v.bool("unique_a"), checks=[ca], regex=bool(opts.get("regex")))
    req_b_val = True if opts.get("b_required_concrete") else v.bool("req_b")
    fb = O.FieldSpec("int", checks=[cb], required=req_b_val)
    key_a = opts.get("regex") or "a"
    spec = O.FrameSpec({key_a: fa, "b": fb}, strict=strict, ordered=ordered, unique=opts.get("unique"),
                       report_duplicates=opts.get("report_duplicates", "all"))
    schema = spec.build(pa, Check)
    o = H.outcome(lambda: schema.validate(df, lazy=lazy))
    cells = {c: v.cells(f"{c}_", k, N, k in ("float", "str")) for c, k in arr}
    # the label-level part depends on the symbolic `required` flag of b: split on it in the oracle
    sat = []
    for req in (True, False):
        fb.required = req
        sat.append(spec.satisfied(v, arr, cells))
    fb.required = req_b_val
    oracle = z3.If(v.z(req_b_val), sat[0], sat[1])
    asserts = [("verdict", v.iff(o["kind"] == "accept", oracle)),
               ("channel", v.holds(channel_ok(o))),
               ("input_unchanged", H.equal_to_snapshot(v, df, snap))]
    if o["kind"] == "accept":
        if strict != "filter":
            asserts.append(("output_equals_input", H.equal_to_snapshot(v, o["out"], snap)))
        asserts.append(("kind_preserved", v.holds(is_frame(o["out"]))))
    return dict(obs=o, asserts=asserts, facts=dict(kind=o["kind"], reason=o.get("reason")))


ARRANGEMENTS = (["a", "b"], ["b", "a"], ["a"], ["b"], ["a", "b", "x"], ["x", "a", "b"], ["a", "x", "b"])


# ------------------------------------------------------------------ index schemas, physical dtypes, dataframe-level checks (C01 T4-T6)
def index_case(v, shape, N, opts):
    """DataFrameSchema / SeriesSchema with an Index or two-level MultiIndex schema over symbolic row labels"""
    lazy = bool(opts.get("lazy"))
    ilo = v.int("ilo")
    uniq = v.bool("idx_unique")
    rd = opts.get("rd", "all")
    if shape == "frame_index":
        obj = v.frame([("a", "float")], N, labels="l", index_name=opts.get("index_name"))
        schema = pa.DataFrameSchema({"a": pa.Column(float, nullable=True)}, index=pa.Index(int, Check.ge(ilo), unique=uniq, report_duplicates=rd,
                                                                                          name=opts.get("schema_index_name")))
        labs = [[z3.Int(f"l{i}") for i in range(N)]]
        los, uniqs = [ilo], [uniq]
        name_ok = opts.get("schema_index_name") is None or opts.get("schema_index_name") == opts.get("index_name")
    elif shape == "series_index":
        obj = v.series("x", "float", N, sname="s", labels="l")
        schema = pa.SeriesSchema(float, nullable=True, name="s", index=pa.Index(int, Check.ge(ilo), unique=uniq, report_duplicates=rd))
        labs = [[z3.Int(f"l{i}") for i in range(N)]]
        los, uniqs = [ilo], [uniq]
        name_ok = True
    elif shape == "frame_multiindex":
        obj = v.mi_frame([("a", "float")], N, levels=[("k0", "l"), ("k1", "m")])
        mlo = v.int("mlo")
        schema = pa.DataFrameSchema({"a": pa.Column(float, nullable=True)},
                                    index=pa.MultiIndex([pa.Index(int, Check.ge(ilo), name="k0", unique=uniq), pa.Index(int, Check.le(mlo), name="k1")]))
        labs = [[z3.Int(f"l{i}") for i in range(N)], [z3.Int(f"m{i}") for i in range(N)]]
        los, uniqs = [ilo, None], [uniq, False]
        name_ok = True
    else:
        raise KeyError(shape)
    snap = H.snapshot(obj)
    o = H.outcome(lambda: schema.validate(obj, lazy=lazy))
    terms = [z3.BoolVal(bool(name_ok))]
    for lv, ls in enumerate(labs):
        if lv == 0:
            terms += [l >= v.z(ilo) for l in ls]
            dup = zor(ls[i] == ls[j] for i in range(N) for j in range(i + 1, N))
            terms.append(z3.Not(z3.And(v.z(uniq), dup)))
        else:
            terms += [l <= v.z(mlo) for l in ls]
    spec = zand(terms)
    asserts = [("verdict", v.iff(o["kind"] == "accept", spec)), ("channel", v.holds(channel_ok(o))), ("input_unchanged", H.equal_to_snapshot(v, obj, snap))]
    if o["kind"] == "accept":
        asserts.append(("output_equals_input", H.equal_to_snapshot(v, o["out"], snap)))
        asserts.append(("kind_preserved", v.holds(kind_of_container(o["out"]) == kind_of_container(obj))))
    if o["kind"] == "SchemaErrors" and shape == "frame_multiindex":
        # the report names the offending (level, row label, value): the row label of a MultiIndex frame is the tuple of its levels
        # (for a single Index the reported `index` is a position: known finding KF-C11-index-failure-positions, not asserted here)
        dup0 = [zor(labs[0][i] == labs[0][j] for j in range(N) if j != i) for i in range(N)]
        level_viol = {"k0": [z3.Or(labs[0][i] < v.z(ilo), z3.And(v.z(uniq), dup0[i])) for i in range(N)],
                      "k1": [labs[1][i] > v.z(mlo) for i in range(N)]}
        comp, sound = index_report_terms(v, o["fc"], level_viol, labs, {"k0": 0, "k1": 1})
        asserts += [("report/index_labels_complete", v.holds(comp)), ("report/index_labels_sound", v.holds(sound))]
    return dict(obs=o, asserts=asserts, facts=dict(kind=o["kind"], reason=o.get("reason"), reasons=o.get("reasons")))


def index_report_terms(v, fc, level_viol, labs, level_pos):
    """every MultiIndex entry of the failure-case table names a (level, row label tuple, level value) of a violating row, and
    every violating (level, row) is named.  fc: shim frame (terms) or real frame (constants)."""
    slots = []
    if isinstance(fc, symframe.DataFrame):
        cols = {k: c for k, c in fc._cols}
        for r in range(len(fc.present)):
            if str(cols["schema_context"].vals[r]) != "MultiIndex":
                continue
            idx = cols["index"].vals[r]
            idx = [getattr(x, "z", x) for x in idx] if isinstance(idx, tuple) else None
            val = cols["failure_case"].vals[r]
            slots.append(dict(p=z3.And(fc.present[r], z3.Not(cols["index"].nulls[r])), col=str(cols["column"].vals[r]), idx=idx, val=getattr(val, "z", val)))
    else:
        for _, r in fc.iterrows():
            if str(r["schema_context"]) != "MultiIndex":
                continue
            try:
                idx = [z3.IntVal(int(float(p))) for p in str(r["index"]).strip("()").split(",") if p.strip()]
            except ValueError:
                idx = None
            try:
                val = z3.IntVal(int(float(r["failure_case"])))
            except (TypeError, ValueError):
                val = None
            slots.append(dict(p=z3.BoolVal(True), col=str(r["column"]), idx=idx, val=val))
    nlev = len(labs)

    def names_row(s, i, lvl):
        if s["idx"] is None or len(s["idx"]) != nlev or s["val"] is None or not z3.is_expr(s["val"]):
            return z3.BoolVal(False)
        return z3.And(*[_num_eq(s["idx"][k], labs[k][i]) for k in range(nlev)], _num_eq(s["val"], labs[level_pos[lvl]][i]))

    complete, sound = [], []
    for lvl, ts in level_viol.items():
        for i, t in enumerate(ts):
            complete.append(z3.Implies(t, zor(z3.And(s["p"], names_row(s, i, lvl)) for s in slots if s["col"] == lvl)))
    for s in slots:
        ts = level_viol.get(s["col"])
        sound.append(z3.Implies(s["p"], zor(z3.And(t, names_row(s, i, s["col"])) for i, t in enumerate(ts)) if ts is not None else z3.BoolVal(False)))
    return zand(complete), zand(sound)


def wide_case(v, shape, N, opts):
    """dataframe-level checks: a row-wise comparison of two columns, a scalar check, an element-wise column check, a groupby check"""
    lazy = bool(opts.get("lazy"))
    c = v.int("c")
    if shape not in ("frame_builtin", "falsy_labels"):
        df = v.frame([("a", "float", False), ("b", "int")], N, labels="l")
        xa, _ = v.cells("a_", "float", N, False)
        xb, _ = v.cells("b_", "int", N, False)
    R = lambda t: z3.ToReal(t) if z3.is_int(t) else t  # noqa: E731
    if shape == "rowwise":
        schema = pa.DataFrameSchema({"a": pa.Column(float), "b": pa.Column(int)}, checks=Check(lambda d: d["a"] >= d["b"]))
        spec = zand(xa[i] >= R(xb[i]) for i in range(N))
    elif shape == "scalar":
        schema = pa.DataFrameSchema({"a": pa.Column(float), "b": pa.Column(int)}, checks=Check(lambda d: (d["b"] <= c).all()))
        spec = zand(xb[i] <= v.z(c) for i in range(N))
    elif shape == "element_wise":
        schema = pa.DataFrameSchema({"a": pa.Column(float, Check(lambda x: x > c, element_wise=True)), "b": pa.Column(int)})
        spec = zand(xa[i] > R(v.z(c)) for i in range(N))
    elif shape == "groupby":
        # a column check that receives the groups of another column (concrete keys), restricted by `groups`
        keys = (["x", "y", "x", "y"])[:N]
        df = v.frame([("a", "float", False), ("b", "int"), ("k", "str", False, keys)], N, labels="l")

        def gfn(groups):
            out = True
            for g in sorted(groups):
                out = out & (groups[g] > c).all()
            return out

        schema = pa.DataFrameSchema({"a": pa.Column(float, Check(gfn, groupby="k", groups=["x"])), "b": pa.Column(int), "k": pa.Column(str)})
        spec = zand(xa[i] > R(v.z(c)) for i in range(N) if keys[i] == "x")
    elif shape == "frame_builtin":
        # a built-in check attached to the schema itself is applied to every cell; null cells of nullable columns are ignored
        df = v.frame([("a", "float"), ("b", "float")], N, labels="l")
        xa, na = v.cells("a_", "float", N, True)
        xb, nb = v.cells("b_", "float", N, True)
        schema = pa.DataFrameSchema({"a": pa.Column(float, nullable=True), "b": pa.Column(float, nullable=True)}, checks=Check.ge(c))
        spec = zand(z3.And(z3.Or(na[i], xa[i] >= R(v.z(c))), z3.Or(nb[i], xb[i] >= R(v.z(c)))) for i in range(N))
    elif shape == "falsy_labels":
        # column labels that are falsy python values (the integer 0, the empty string): a column-level check concerns its own column
        df = v.frame([(0, "float", False), ("", "int"), (1, "int")], N, labels="l")
        x0, _ = v.cells("0_", "float", N, False)
        xe, _ = v.cells("_", "int", N, False)
        schema = pa.DataFrameSchema({0: pa.Column(float, Check.ge(c)), "": pa.Column(int, Check.le(c)), 1: pa.Column(int)})
        spec = zand(z3.And(x0[i] >= R(v.z(c)), xe[i] <= v.z(c)) for i in range(N))
    elif shape == "two_checks":
        schema = pa.DataFrameSchema({"a": pa.Column(float, [Check.ge(c), Check.le(c + 5)]), "b": pa.Column(int, Check.ne(c))})
        spec = zand(z3.And(xa[i] >= R(v.z(c)), xa[i] <= R(v.z(c)) + 5, xb[i] != v.z(c)) for i in range(N))
    else:
        raise KeyError(shape)
    snap = H.snapshot(df)
    o = H.outcome(lambda: schema.validate(df, lazy=lazy))
    asserts = [("verdict", v.iff(o["kind"] == "accept", spec)), ("channel", v.holds(channel_ok(o))), ("input_unchanged", H.equal_to_snapshot(v, df, snap))]
    if o["kind"] == "accept":
        asserts.append(("output_equals_input", H.equal_to_snapshot(v, o["out"], snap)))
        asserts.append(("kind_preserved", v.holds(is_frame(o["out"]))))
    return dict(obs=o, asserts=asserts, facts=dict(kind=o["kind"], reason=o.get("reason"), reasons=o.get("reasons")))


# ------------------------------------------------------------------ parsing options (C03 C04 C06 C11 C02)
def parse_case(v, arrangement, N, opts):
    """DataFrameSchema {a: float col, b: int col} with any combination of the parsing options:
    opts: coerce in (None,'col','schema'), a_kind ('int' for int->float coercion, 'float'), default (bool), add_missing (bool),
    strict in (False,True,'filter'), drop (bool), lazy (bool), index in (None,'plain','coerce'), unique (joint)"""
    a_kind = opts.get("a_kind", "float")
    kinds = dict(KINDS, a=a_kind)
    arr = [(c, kinds[c]) for c in arrangement]
    lazy = bool(opts.get("lazy")) or bool(opts.get("drop"))
    df = v.frame(arr, N, labels="l", distinct_labels=bool(opts.get("distinct_labels")))
    snap = H.snapshot(df)
    lo = v.int("aA")
    nullable, unique_a = v.bool("nullable"), v.bool("unique_a")
    default = v.int("dflt") if opts.get("default") else None
    coerce_col = opts.get("coerce") == "col"
    idx = None
    ilo = v.int("ilo") if opts.get("index") else None

    def mk(parsing):
        cols = {
            "a": pa.Column(float, Check.ge(lo), nullable=nullable, unique=unique_a, coerce=coerce_col and parsing,
                           default=default if parsing else None, drop_invalid_rows=False),
            "b": pa.Column(int, Check.isin([1, 2, 3]), coerce=coerce_col and parsing),
        }
        index = None
        if opts.get("index"):
            index = pa.Index(int, Check.ge(ilo), coerce=parsing and opts.get("index") == "coerce")
        return pa.DataFrameSchema(
            cols, index=index, coerce=parsing and opts.get("coerce") == "schema",
            strict=(opts.get("strict", False) if parsing or opts.get("strict") is not True else True) if parsing else (True if opts.get("strict") in (True, "filter") else False),
            add_missing_columns=parsing and bool(opts.get("add_missing")), unique=opts.get("unique"),
            drop_invalid_rows=parsing and bool(opts.get("drop")))

    schema = mk(True)
    depth = {"SO": "SCHEMA_ONLY", "DO": "DATA_ONLY"}.get(opts.get("depth"))

    def run():
        if depth:  # a restricted validation depth removes checks; parsing, copying and the error channel are the same
            from pandera.config import ValidationDepth, config_context

            with config_context(validation_depth=getattr(ValidationDepth, depth)):
                return schema.validate(df, lazy=lazy)
        return schema.validate(df, lazy=lazy)

    o = H.outcome(run)
    asserts = [("channel", v.holds(channel_ok(o))), ("input_unchanged", H.equal_to_snapshot(v, df, snap))]
    facts = dict(kind=o["kind"], reason=o.get("reason"), reasons=o.get("reasons"))
    if o["kind"] == "accept":
        out = o["out"]
        asserts.append(("kind_preserved", v.holds(is_frame(out))))
        if is_frame(out) and not depth:
            osnap = H.snapshot(out)
            stripped = mk(False)
            o2 = H.outcome(lambda: stripped.validate(out, lazy=False))
            facts["revalidate_stripped"] = o2["kind"] + (":" + str(o2.get("reason")) if o2.get("reason") else "")
            asserts.append(("fixpoint_conforms", v.holds(o2["kind"] == "accept")))
            o3 = H.outcome(lambda: schema.validate(out, lazy=lazy))
            facts["revalidate_same"] = o3["kind"]
            asserts.append(("fixpoint_accepts_again", v.holds(o3["kind"] == "accept")))
            if o3["kind"] == "accept":
                asserts.append(("fixpoint_identity", H.equal_to_snapshot(v, o3["out"], osnap)))
        if is_frame(out) and opts.get("second_call"):
            # the caller puts the raw values back into the frame validate returned (it carries the schema in its accessor) and
            # validates that object again with the same schema: it is an input like any other
            for c, _ in arr:
                if c in out:
                    out[c] = df[c]
            snap2 = H.snapshot(out)
            o4 = H.outcome(lambda: schema.validate(out, lazy=lazy))
            facts["second_call"] = o4["kind"]
            asserts.append(("input_unchanged/second_call_on_validated_frame", H.equal_to_snapshot(v, out, snap2)))
    return dict(obs=o, asserts=asserts, facts=facts)


# ------------------------------------------------------------------ add_missing_columns over a wider schema (C03)
def wide_parse_case(v, present, N, opts):
    """schema of four int columns c0..c3 (each with a default), add_missing_columns=True; the frame holds the subset `present`
    (schema order, optionally with an undeclared column x) — several gaps at once, at the front, inside and at the end."""
    names = ["c0", "c1", "c2", "c3"]
    arr = [(c, "int") for c in present]
    df = v.frame(arr, N, labels="l")
    snap = H.snapshot(df)
    lo = v.int("lo", -3, 3)
    dfl = [v.int(f"d{i}", -3, 3) for i in range(4)]

    def mk(parsing):
        cols = {c: pa.Column(int, Check.ge(lo), default=dfl[i] if parsing else None) for i, c in enumerate(names)}
        strict = opts.get("strict", False)
        return pa.DataFrameSchema(cols, ordered=bool(opts.get("ordered")), add_missing_columns=parsing,
                                  strict=(strict if parsing else (True if strict in (True, "filter") else False)))

    schema = mk(True)
    o = H.outcome(lambda: schema.validate(df, lazy=bool(opts.get("lazy"))))
    asserts = [("channel", v.holds(channel_ok(o))), ("input_unchanged", H.equal_to_snapshot(v, df, snap))]
    facts = dict(kind=o["kind"], reason=o.get("reason"), reasons=o.get("reasons"))
    if o["kind"] == "accept" and is_frame(o["out"]):
        out = o["out"]
        facts["out_columns"] = [str(c) for c in out.columns]
        osnap = H.snapshot(out)
        o2 = H.outcome(lambda: mk(False).validate(out))
        facts["revalidate_stripped"] = o2["kind"] + (":" + str(o2.get("reason")) if o2.get("reason") else "")
        asserts.append(("fixpoint_conforms", v.holds(o2["kind"] == "accept")))
        o3 = H.outcome(lambda: schema.validate(out, lazy=bool(opts.get("lazy"))))
        asserts.append(("fixpoint_accepts_again", v.holds(o3["kind"] == "accept")))
        if o3["kind"] == "accept":
            asserts.append(("fixpoint_identity", H.equal_to_snapshot(v, o3["out"], osnap)))
        # every declared column is there, the data columns kept their values
        asserts.append(("fixpoint_conforms/all_declared_columns", v.holds(all(c in list(out.columns) for c in names))))
    return dict(obs=o, asserts=asserts, facts=facts)


# ------------------------------------------------------------------ parsing options of a SeriesSchema / schema-level dtype (C03 C04 C06)
def series_parse_case(v, N, opts):
    """SeriesSchema with coerce / default / drop_invalid_rows (and their pairs); opts: coerce, default, drop, lazy"""
    src = "int" if opts.get("coerce") else "float"
    lazy = bool(opts.get("lazy")) or bool(opts.get("drop"))
    ser = v.series("x", src, N, sname="s", labels="l", distinct_labels=bool(opts.get("drop")))
    snap = H.snapshot(ser)
    lo = v.int("lo")
    nullable, unique = v.bool("nullable"), v.bool("unique")
    default = v.int("dflt") if opts.get("default") else None

    def mk(parsing):
        return pa.SeriesSchema(float, Check.ge(lo), nullable=nullable, unique=unique, name="s", coerce=parsing and bool(opts.get("coerce")),
                               default=default if parsing else None, drop_invalid_rows=parsing and bool(opts.get("drop")))

    schema = mk(True)
    o = H.outcome(lambda: schema.validate(ser, lazy=lazy))
    asserts = [("channel", v.holds(channel_ok(o))), ("input_unchanged", H.equal_to_snapshot(v, ser, snap))]
    facts = dict(kind=o["kind"], reason=o.get("reason"), reasons=o.get("reasons"))
    if o["kind"] == "accept":
        out = o["out"]
        asserts.append(("kind_preserved", v.holds(is_series(out))))
        if is_series(out):
            osnap = H.snapshot(out)
            o2 = H.outcome(lambda: mk(False).validate(out))
            facts["revalidate_stripped"] = o2["kind"] + (":" + str(o2.get("reason")) if o2.get("reason") else "")
            asserts.append(("fixpoint_conforms", v.holds(o2["kind"] == "accept")))
            o3 = H.outcome(lambda: schema.validate(out, lazy=lazy))
            asserts.append(("fixpoint_accepts_again", v.holds(o3["kind"] == "accept")))
            if o3["kind"] == "accept":
                asserts.append(("fixpoint_identity", H.equal_to_snapshot(v, o3["out"], osnap)))
    return dict(obs=o, asserts=asserts, facts=facts)


def schema_dtype_case(v, N, opts):
    """DataFrameSchema(dtype=float[, coerce=True]) over int/float columns: the frame-level dtype overrides the column dtypes"""
    lazy = bool(opts.get("lazy"))
    coerce = bool(opts.get("coerce"))
    df = v.frame([("a", "int", False), ("b", "float")], N, labels="l")
    snap = H.snapshot(df)
    lo = v.int("lo")

    def mk(parsing):
        return pa.DataFrameSchema({"a": pa.Column(int, Check.ge(lo)), "b": pa.Column(float, nullable=True)}, dtype=float, coerce=parsing and coerce)

    schema = mk(True)
    o = H.outcome(lambda: schema.validate(df, lazy=lazy))
    asserts = [("channel", v.holds(channel_ok(o))), ("input_unchanged", H.equal_to_snapshot(v, df, snap))]
    xa, _ = v.cells("a_", "int", N, False)
    # documented: the dataframe-level dtype applies to every column; without coercion an int column does not conform
    spec = z3.And(z3.BoolVal(coerce), zand(x >= v.z(lo) for x in xa))
    asserts.append(("verdict", v.iff(o["kind"] == "accept", spec)))
    facts = dict(kind=o["kind"], reason=o.get("reason"), reasons=o.get("reasons"))
    if o["kind"] == "accept" and is_frame(o["out"]):
        out = o["out"]
        asserts.append(("kind_preserved", v.holds(True)))
        osnap = H.snapshot(out)
        o2 = H.outcome(lambda: mk(False).validate(out))
        facts["revalidate_stripped"] = o2["kind"] + (":" + str(o2.get("reason")) if o2.get("reason") else "")
        asserts.append(("fixpoint_conforms", v.holds(o2["kind"] == "accept")))
        o3 = H.outcome(lambda: schema.validate(out, lazy=lazy))
        asserts.append(("fixpoint_accepts_again", v.holds(o3["kind"] == "accept")))
        if o3["kind"] == "accept":
            asserts.append(("fixpoint_identity", H.equal_to_snapshot(v, o3["out"], osnap)))
    return dict(obs=o, asserts=asserts, facts=facts)


# ------------------------------------------------------------------ SeriesSchema with an index schema
def series_index_case(v, N, lazy, val_coerce, idx_coerce):
    """data: int Series with int labels; schema value dtype float when val_coerce (int->float), index dtype float
    when idx_coerce."""
    ser = v.series("x", "int", N, sname="s", labels="l")
    snap = H.snapshot(ser)
    lo, ilo = v.int("lo"), v.int("ilo")

    def mk(parsing):
        return pa.SeriesSchema(float if val_coerce else int, checks=Check.ge(lo), coerce=val_coerce and parsing, name="s",
                               index=pa.Index(float if idx_coerce else int, Check.ge(ilo), coerce=idx_coerce and parsing))

    schema = mk(True)
    o = H.outcome(lambda: schema.validate(ser, lazy=lazy))
    asserts = [("channel", v.holds(channel_ok(o))), ("input_unchanged", H.equal_to_snapshot(v, ser, snap))]
    facts = dict(kind=o["kind"], reason=o.get("reason"), reasons=o.get("reasons"))
    xs, _ = v.cells("x", "int", N, False)
    ls = [z3.Int(f"l{i}") for i in range(N)]
    spec = z3.And(*[x >= v.z(lo) for x in xs], *[l >= v.z(ilo) for l in ls]) if N else z3.BoolVal(True)
    asserts.append(("verdict", v.iff(o["kind"] == "accept", spec)))
    if o["kind"] == "accept":
        out = o["out"]
        asserts.append(("kind_preserved", v.holds(is_series(out))))
        if is_series(out):
            osnap = H.snapshot(out)
            stripped = mk(False)
            o2 = H.outcome(lambda: stripped.validate(out))
            facts["revalidate_stripped"] = o2["kind"] + (":" + str(o2.get("reason")) if o2.get("reason") else "")
            asserts.append(("fixpoint_conforms", v.holds(o2["kind"] == "accept")))
            o3 = H.outcome(lambda: schema.validate(out, lazy=lazy))
            asserts.append(("fixpoint_accepts_again", v.holds(o3["kind"] == "accept")))
            if o3["kind"] == "accept":
                asserts.append(("fixpoint_identity", H.equal_to_snapshot(v, o3["out"], osnap)))
    return dict(obs=o, asserts=asserts, facts=facts)


# ------------------------------------------------------------------ schema components validated directly
def component_case(v, comp, N, lazy):
    """Column / Index / MultiIndex schema objects called directly on a dataframe."""
    coerce = comp.endswith("_coerce")
    lo = v.int("lo")
    if comp == "multiindex_coerce_swapped":
        # the schema lists the levels in another order than the data (ordered=False): coercion must put every level back in its place
        df = v.mi_frame([("a", "float")], N, levels=[("k0", "l"), ("k1", "m")])
        schema = pa.MultiIndex([pa.Index(int, name="k1"), pa.Index(int, Check.ge(lo), name="k0")], coerce=True, ordered=False)
    elif comp.startswith("multiindex"):
        df = v.mi_frame([("a", "int" if coerce else "float")], N, levels=[("k0", "l"), ("k1", "m")])
        schema = pa.MultiIndex([pa.Index(float if coerce else int, Check.ge(lo), name="k0", coerce=coerce), pa.Index(int, name="k1")])
    else:
        df = v.frame([("a", "int" if coerce else "float"), ("b", "int")], N, labels="l")
        if comp == "column_parser":  # a stand-alone Column with a parser that changes values (nulls are filled)
            from pandera import Parser

            schema = pa.Column(float, Check.ge(lo), name="a", nullable=v.bool("nullable"), parsers=Parser(lambda s: s.fillna(0.5)))
        elif comp == "column_regex_parser":
            from pandera import Parser

            schema = pa.Column(float, Check.ge(lo), name="^a$", regex=True, nullable=True, parsers=Parser(lambda s: s.fillna(0.5)))
        elif comp.startswith("column"):
            schema = pa.Column(float, Check.ge(lo), name="a", nullable=v.bool("nullable"), coerce=coerce,
                               default=v.int("dflt") if comp == "column_default" else None)
        else:
            schema = pa.Index(float if coerce else int, Check.ge(lo), coerce=coerce, unique=v.bool("unique"))
    snap = H.snapshot(df)
    o = H.outcome(lambda: schema.validate(df, lazy=lazy))
    asserts = [("channel", v.holds(channel_ok(o))), ("input_unchanged", H.equal_to_snapshot(v, df, snap))]
    if o["kind"] == "accept":
        asserts.append(("kind_preserved", v.holds(is_frame(o["out"]))))
        if comp in ("multiindex_coerce_swapped", "multiindex_coerce", "index_coerce", "column_coerce") and is_frame(o["out"]):
            # coercion keeps rows, labels and values (numbers compared by value: int -> float is exact)
            asserts.append(("coerce/labels_and_values_preserved", H.equal_to_snapshot(v, o["out"], snap, values_only=True)))
    return dict(obs=o, asserts=asserts, facts=dict(kind=o["kind"], reason=o.get("reason"), reasons=o.get("reasons")))


def standard_cases(tier):
    """(tid, base template fn, args) for the schema shapes shared by C04 and C06"""
    import itertools

    ts = []
    N = 2
    for kind, cname in (("float", "in_range"), ("float", "ne"), ("int", "ge"), ("str", "str_matches"), ("str", "isin")):
        for lazy in (False, True):
            ts.append((f"S/{kind}/{cname}/lazy={int(lazy)}/N={N}", series_case, (kind, cname, N, True, None, lazy)))
    for arr in (["a", "b"], ["b", "a"], ["a", "b", "x"], ["b"]):
        for strict in (False, True, "filter"):
            for lazy in (False, True):
                ts.append((f"F/{''.join(arr)}/strict={strict}/lazy={int(lazy)}/N={N}", frame_case, (arr, strict, False, N, {"lazy": lazy})))
    for vc, ic in itertools.product((False, True), repeat=2):
        for lazy in (False, True):
            ts.append((f"SI/val_coerce={int(vc)}/idx_coerce={int(ic)}/lazy={int(lazy)}/N={N}", series_index_case, (N, lazy, vc, ic)))
    for coerce, a_kind in ((None, "float"), ("col", "int"), ("schema", "int")):
        for default in (False, True):
            for add_missing, arr in ((False, ["a", "b"]), (True, ["b"]), (False, ["a", "b", "x"]), (True, ["b", "x"])):
                for strict in (False, "filter"):
                    if arr == ["b", "x"] and strict != "filter":
                        continue  # (a missing column that may not be addable, next to a column that strict='filter' removes)
                    for drop in (False, True):
                        for index in (None, "coerce"):
                            c = dict(coerce=coerce, a_kind=a_kind, default=default, add_missing=add_missing, strict=strict, drop=drop, index=index)
                            n_on = sum([coerce is not None, default, add_missing, strict == "filter", drop, index is not None])
                            if n_on > (2 if tier == "quick" else 6) or (tier == "quick" and n_on == 2 and index and drop):
                                continue
                            for lazy in ((False, True) if not drop else (True,)):
                                cc = dict(c, lazy=lazy, distinct_labels=drop)
                                tid = "P/" + "".join(arr) + "/" + "/".join(f"{k}={v}" for k, v in cc.items() if k != "distinct_labels")
                                ts.append((tid, parse_case, (arr, N, cc)))
    for arr, c in ((["a", "b"], dict(default=True)), (["a", "b"], dict(coerce="col", a_kind="int")), (["a", "b", "x"], dict(strict="filter"))):
        for lazy in (False, True):  # a second validate call on the frame the first one returned, modified by the caller in between
            cc = dict(c, lazy=lazy, second_call=True)
            ts.append(("P2/" + "".join(arr) + "/" + "/".join(f"{k}={x}" for k, x in cc.items()), parse_case, (arr, N, cc)))
    for comp in ("column", "column_coerce", "column_default", "column_parser", "column_regex_parser", "index", "index_coerce", "multiindex", "multiindex_coerce",
                 "multiindex_coerce_swapped"):
        for lazy in (False, True):
            ts.append((f"K/{comp}/lazy={int(lazy)}/N={N}", component_case, (comp, N, lazy)))
    for shape in ("frame_index", "series_index", "frame_multiindex"):
        for lazy in (False, True):
            ts.append((f"I/{shape}/lazy={int(lazy)}/N={N}", index_case, (shape, N, dict(lazy=lazy))))
    for shape in ("rowwise", "scalar", "element_wise", "two_checks", "groupby", "frame_builtin", "falsy_labels"):
        for lazy in (False, True):
            ts.append((f"W/{shape}/lazy={int(lazy)}/N={N}", wide_case, (shape, N, dict(lazy=lazy))))
    for c in (dict(coerce=True), dict(default=True), dict(drop=True), dict(coerce=True, default=True), dict(coerce=True, drop=True), dict(default=True, drop=True)):
        for lazy in ((False, True) if not c.get("drop") else (True,)):
            ts.append(("SP/" + "+".join(c) + f"/lazy={int(lazy)}/N={N}", series_parse_case, (N, dict(c, lazy=lazy))))
    for coerce in (False, True):
        for lazy in (False, True):
            ts.append((f"DT/coerce={int(coerce)}/lazy={int(lazy)}/N={N}", schema_dtype_case, (N, dict(coerce=coerce, lazy=lazy))))
    # empty and one-row objects of representative shapes (reductions over nothing, no duplicates possible, head/tail of nothing)
    for n in (0, 1):
        for lazy in (False, True):
            ts.append((f"S/float/in_range/lazy={int(lazy)}/N={n}", series_case, ("float", "in_range", n, True, None, lazy)))
            ts.append((f"S/str/str_matches/lazy={int(lazy)}/N={n}", series_case, ("str", "str_matches", n, True, None, lazy)))
            ts.append((f"F/ab/strict=filter/lazy={int(lazy)}/N={n}", frame_case, (["a", "b"], "filter", False, n, {"lazy": lazy})))
            ts.append((f"I/frame_index/lazy={int(lazy)}/N={n}", index_case, ("frame_index", n, dict(lazy=lazy))))
            ts.append((f"W/rowwise/lazy={int(lazy)}/N={n}", wide_case, ("rowwise", n, dict(lazy=lazy))))
            ts.append((f"K/column_coerce/lazy={int(lazy)}/N={n}", component_case, ("column_coerce", n, lazy)))
        for c in (dict(coerce="col", a_kind="int"), dict(default=True), dict(drop=True), dict(add_missing=True, default=True)):
            arr = ["b"] if c.get("add_missing") else ["a", "b"]
            cc = dict(c, lazy=bool(c.get("drop")), distinct_labels=bool(c.get("drop")))
            ts.append((f"P/{''.join(arr)}/" + "/".join(f"{k}={x}" for k, x in cc.items() if k != "distinct_labels") + f"/N={n}", parse_case, (arr, n, cc)))
    # the parsing options under a restricted validation depth (checks are removed, parsers still run)
    for depth in ("SO", "DO"):
        for arr, c in ((["a", "b"], dict(coerce="col", a_kind="int")), (["a", "b"], dict(default=True)), (["a", "b", "x"], dict(strict="filter")),
                       (["b"], dict(add_missing=True, default=True)), (["a", "b"], dict(coerce="schema", a_kind="int", index="coerce")), (["a", "b"], dict(drop=True))):
            for lazy in ((False, True) if not c.get("drop") else (True,)):
                cc = dict(c, lazy=lazy, depth=depth, distinct_labels=bool(c.get("drop")))
                tid = f"PD/{depth}/" + "".join(arr) + "/" + "/".join(f"{k}={v}" for k, v in cc.items() if k not in ("distinct_labels", "depth"))
                ts.append((tid, parse_case, (arr, N, cc)))
    return ts


# ------------------------------------------------------------------ schema fingerprint (C05 C06 C15)
CHECK_ATTRS = ("name", "error", "element_wise", "ignore_na", "n_failure_cases", "raise_warning", "groupby", "groups", "title", "description")
COMP_ATTRS = ("name", "coerce", "nullable", "unique", "required", "regex", "report_duplicates", "default", "title", "description",
              "drop_invalid_rows", "metadata")
SCHEMA_ATTRS = ("name", "strict", "ordered", "coerce", "unique", "report_duplicates", "unique_column_names", "add_missing_columns",
                "title", "description", "drop_invalid_rows", "metadata")


def _fp_check(c):
    return (type(c).__name__, tuple((a, repr(getattr(c, a, None))) for a in CHECK_ATTRS),
            repr(sorted((k, repr(x)) for k, x in (getattr(c, "statistics", None) or {}).items())),
            repr(sorted((k, repr(x)) for k, x in (getattr(c, "_check_kwargs", None) or {}).items())),
            getattr(getattr(c, "_check_fn", None), "__qualname__", type(getattr(c, "_check_fn", None)).__name__))


def _fp_comp(c):
    if c is None:
        return None
    if hasattr(c, "indexes"):  # MultiIndex
        return ("MultiIndex", tuple(_fp_comp(i) for i in c.indexes), repr(getattr(c, "coerce", None)), repr(getattr(c, "strict", None)),
                repr(getattr(c, "ordered", None)), repr(getattr(c, "unique", None)), repr(getattr(c, "name", None)))
    return (type(c).__name__, repr(getattr(c, "dtype", None)), tuple((a, repr(getattr(c, a, None))) for a in COMP_ATTRS),
            tuple(_fp_check(k) for k in (getattr(c, "checks", None) or [])), len(getattr(c, "parsers", None) or []))


def fingerprint(schema):
    """structural dump of a schema object graph; symbolic attribute values print as their terms"""
    if hasattr(schema, "columns") and isinstance(getattr(schema, "columns"), dict) and not hasattr(schema, "indexes"):
        return ("DataFrameSchema", repr(schema.dtype), tuple((a, repr(getattr(schema, a, None))) for a in SCHEMA_ATTRS),
                tuple((repr(k), _fp_comp(c)) for k, c in schema.columns.items()), _fp_comp(schema.index),
                tuple(_fp_check(k) for k in schema.checks), len(getattr(schema, "parsers", None) or []))
    if hasattr(schema, "index") and not hasattr(schema, "columns"):
        return ("SeriesSchema", _fp_comp(schema), _fp_comp(getattr(schema, "index", None)))
    return _fp_comp(schema)


def config_fingerprint():
    from pandera.config import get_config_context, get_config_global

    return (repr(get_config_context(validation_depth_default=None)), repr(get_config_global()))


# ------------------------------------------------------------------ legal but unusual combinations (C06 a)
def unusual_case(v, which, N):
    lazy = True
    lo = v.int("lo")
    if which == "drop_dtype_error_frame":  # docs/source/drop_invalid_rows.md, first example: Column(int) on non-int data
        df = v.frame([("a", "float")], N, labels="l", distinct_labels=True)
        schema = pa.DataFrameSchema({"a": pa.Column(int, Check.ge(lo))}, drop_invalid_rows=True)
    elif which == "drop_dtype_error_series":
        df = v.series("a_", "float", N, sname="a", labels="l", distinct_labels=True)
        schema = pa.SeriesSchema(int, Check.ge(lo), drop_invalid_rows=True, name="a")
    elif which == "drop_dtype_error_column":
        df = v.frame([("a", "float")], N, labels="l", distinct_labels=True)
        schema = pa.Column(int, Check.ge(lo), name="a", drop_invalid_rows=True)
    elif which == "drop_missing_column":
        df = v.frame([("a", "float")], N, labels="l", distinct_labels=True)
        schema = pa.DataFrameSchema({"a": pa.Column(float, Check.ge(lo), nullable=True), "b": pa.Column(int)}, drop_invalid_rows=True)
    elif which == "drop_scalar_check":
        df = v.frame([("a", "float", False)], N, labels="l", distinct_labels=True)
        c = v.int("c")
        schema = pa.DataFrameSchema({"a": pa.Column(float, Check(lambda s: s.max() < c))}, drop_invalid_rows=True)
    elif which == "drop_rows_then_dtype_error":  # a row-level error is collected first, the wrong dtype of a later column after it
        df = v.frame([("a", "float"), ("b", "float", False)], N, labels="l", distinct_labels=True)
        schema = pa.DataFrameSchema({"a": pa.Column(float, Check.ge(lo), nullable=True), "b": pa.Column(int)}, drop_invalid_rows=True)
    elif which == "drop_rows_then_scalar_df_check":
        df = v.frame([("a", "float"), ("b", "int")], N, labels="l", distinct_labels=True)
        c = v.int("c")
        schema = pa.DataFrameSchema({"a": pa.Column(float, Check.ge(lo), nullable=True), "b": pa.Column(int)}, checks=Check(lambda d: d["b"].max() < c),
                                    drop_invalid_rows=True)
    elif which == "lazy_joint_unique_dup_labels":
        df = v.frame([("a", "float"), ("b", "int")], N, labels="l")
        schema = pa.DataFrameSchema({"a": pa.Column(float, nullable=True), "b": pa.Column(int)}, unique=["a", "b"])
    elif which == "eager_joint_unique_dup_labels":
        lazy = False
        df = v.frame([("a", "float"), ("b", "int")], N, labels="l")
        schema = pa.DataFrameSchema({"a": pa.Column(float, nullable=True), "b": pa.Column(int)}, unique=["a", "b"])
    elif which == "multiindex_joint_unique":  # uniqueness over the levels of a MultiIndex: a violation means duplicated row labels
        lazy = bool(v.choice("lazy", [False, True]))
        df = v.mi_frame([("a", "float")], N, levels=[("k0", "l"), ("k1", "m")])
        schema = pa.DataFrameSchema({"a": pa.Column(float, nullable=True)},
                                    index=pa.MultiIndex([pa.Index(int, name="k0"), pa.Index(int, name="k1")], unique=["k0", "k1"]))
    elif which == "wide_check_dup_labels":
        df = v.frame([("a", "float", False), ("b", "int")], N, labels="l")
        schema = pa.DataFrameSchema({"a": pa.Column(float), "b": pa.Column(int)}, checks=Check(lambda d: d["a"] >= d["b"]))
    elif which == "strict_regex":
        lazy = bool(v.choice("lazy", [False, True]))
        df = v.frame([("a1", "float"), ("ba3", "float"), ("b", "int")], N, labels="l")
        schema = pa.DataFrameSchema({"^a[0-9]$": pa.Column(float, Check.ge(lo), nullable=True, regex=True), "b": pa.Column(int)}, strict=True)
    elif which == "regex_no_match":
        lazy = bool(v.choice("lazy", [False, True]))
        df = v.frame([("b", "int")], N, labels="l")
        schema = pa.DataFrameSchema({"^a[0-9]$": pa.Column(float, Check.ge(lo), regex=True, required=v.bool("req")), "b": pa.Column(int)})
    elif which == "wrong_kind_check_arg":
        lazy = bool(v.choice("lazy", [False, True]))
        df = v.frame([("a", "float")], N, labels="l")
        schema = pa.DataFrameSchema({"a": pa.Column(float, Check.ge("x"), nullable=True)})
    elif which == "unique_nullable_drop":
        df = v.frame([("a", "float")], N, labels="l", distinct_labels=True)
        schema = pa.DataFrameSchema({"a": pa.Column(float, nullable=v.bool("nullable"), unique=True)}, drop_invalid_rows=True)
    else:
        raise KeyError(which)
    snap = H.snapshot(df)
    fp0, cfg0 = fingerprint(schema), config_fingerprint()
    o = H.outcome(lambda: schema.validate(df, lazy=lazy))
    asserts = [("channel", v.holds(channel_ok(o))), ("input_unchanged", H.equal_to_snapshot(v, df, snap)),
               ("schema_unchanged", v.holds(fingerprint(schema) == fp0)), ("config_unchanged", v.holds(config_fingerprint() == cfg0))]
    # C11: a violation that is not attributable to rows is still raised, however many rows the row-level errors remove
    if which in ("drop_dtype_error_frame", "drop_dtype_error_series", "drop_dtype_error_column", "drop_missing_column", "drop_rows_then_dtype_error"):
        asserts.append(("drop/non_row_violation_raised", v.holds(o["kind"] == "SchemaErrors")))
    elif which == "drop_rows_then_scalar_df_check" and N > 0:
        xb, _ = v.cells("b_", "int", N, False)
        mx = xb[0]
        for x in xb[1:]:
            mx = z3.If(x > mx, x, mx)
        asserts.append(("drop/non_row_violation_raised", v.iff(o["kind"] == "SchemaErrors", z3.Not(mx < v.z(c)))))
    return dict(obs=o, asserts=asserts, facts=dict(kind=o["kind"], reason=o.get("reason"), reasons=o.get("reasons"), msg=o.get("msg"), which=which))


UNUSUAL = ("drop_dtype_error_frame", "drop_dtype_error_series", "drop_dtype_error_column", "drop_missing_column", "drop_scalar_check",
           "drop_rows_then_dtype_error", "drop_rows_then_scalar_df_check",
           "lazy_joint_unique_dup_labels", "eager_joint_unique_dup_labels", "multiindex_joint_unique", "wide_check_dup_labels", "strict_regex", "regex_no_match",
           "wrong_kind_check_arg", "unique_nullable_drop")


# ------------------------------------------------------------------ fault schedules over user callbacks (C06 b)
class Injected(RuntimeError):
    pass


def fault_case(v, shape, lazy, N, max_faults):
    """User callbacks (vectorised check, element-wise check, dataframe check, parser) consult one symbolic flag per
    invocation; the engine explores every fault schedule with at most `max_faults` faults."""
    calls = []
    flags = []

    def maybe_fail(tag):
        j = len(calls)
        calls.append(tag)
        f = v.bool(f"fail{j}")
        flags.append(f)
        if v.sym and max_faults is not None:
            from symx import eng

            eng().assume(z3.AtMost(*[z3.Bool(f"fail{k}") for k in range(12)], max_faults))
        if f:
            if v.bool("bare"):  # an exception without arguments (`raise KeyError`), decided only where a fault fires
                raise Injected()
            if not tag.startswith("p") and v.bool("as_schema_error"):
                # a pandera SchemaError built by hand inside a CHECK function (no reason code, no check): reported like any other
                # failing check.  (Raised by a parser it escapes as KeyError(None) on the unchanged tree — parser exceptions propagate
                # by design and this shape is not asserted.)
                raise pa.errors.SchemaError(None, None, f"injected@{j}:{tag}")
            raise Injected(f"injected@{j}:{tag}")

    def vec(tag):
        def fn(x):
            maybe_fail(tag)
            return x >= 0
        return fn

    def elem(tag):
        def fn(x):
            maybe_fail(tag)
            return x >= 0
        return fn

    def dfc(tag):
        def fn(d):
            maybe_fail(tag)
            return d["b"] >= 0
        return fn

    def parser(tag):
        def fn(s):
            maybe_fail(tag)
            return s
        return fn

    if shape == "frame" or shape == "frame_regex":
        regex = shape == "frame_regex"
        df = v.frame([("a1", "float"), ("b", "int")], N, labels="l", distinct_labels=True)
        schema = pa.DataFrameSchema(
            {("^a[0-9]$" if regex else "a1"): pa.Column(float, [Check(vec("c1")), Check(elem("el"), element_wise=True)], nullable=True, regex=regex, coerce=True),
             "b": pa.Column(int, Check(vec("c2")))}, checks=Check(dfc("df")))
        user_checks = 4
    elif shape == "series":
        df = v.series("x", "float", N, sname="s", labels="l", distinct_labels=True)
        schema = pa.SeriesSchema(float, [Check(vec("c1")), Check(elem("el"), element_wise=True)], nullable=True, name="s",
                                 index=pa.Index(int, Check(vec("ix"))))
        user_checks = 3
    elif shape == "parser":
        df = v.frame([("a1", "float"), ("b", "int")], N, labels="l", distinct_labels=True)
        from pandera import Parser

        schema = pa.DataFrameSchema({"a1": pa.Column(float, Check(vec("c1")), parsers=Parser(parser("p1")), nullable=True, coerce=True), "b": pa.Column(int)},
                                    parsers=Parser(parser("pdf")))
        user_checks = 1
    elif shape == "parser_dtype":  # dataframe-level dtype: the component's dtype is overridden while it is validated
        df = v.frame([("a1", "float"), ("b", "float")], N, labels="l", distinct_labels=True)
        from pandera import Parser

        schema = pa.DataFrameSchema({"a1": pa.Column(int, Check(vec("c1")), parsers=Parser(parser("p1")), nullable=True), "b": pa.Column(checks=Check(vec("c2")))},
                                    dtype=float)
        user_checks = 2
    elif shape == "groupby":
        df = v.frame([("a1", "float", False), ("b", "int")], N, labels="l", distinct_labels=True)

        def gfn(groups):
            maybe_fail("grp")
            return True

        schema = pa.DataFrameSchema({"a1": pa.Column(float, Check(gfn, groupby=lambda d: (maybe_fail("gby"), d.groupby("b"))[1])), "b": pa.Column(int)})
        user_checks = 1
    else:
        raise KeyError(shape)
    snap = H.snapshot(df)
    fp0, cfg0 = fingerprint(schema), config_fingerprint()
    o = H.outcome(lambda: schema.validate(df, lazy=lazy))
    faults = [bool(f) if not v.sym else None for f in flags]
    n_injected = len([c for c in calls]) and sum(1 for k in range(len(flags)) if _flag_true(v, flags[k]))
    asserts = [("fault/channel", v.holds(channel_ok(o) or (shape.startswith("parser") and o["kind"] == "leak:Injected"))),
               ("fault/input_unchanged", H.equal_to_snapshot(v, df, snap)),
               ("fault/schema_unchanged", v.holds(fingerprint(schema) == fp0)),
               ("fault/config_unchanged", v.holds(config_fingerprint() == cfg0))]
    if n_injected and not (shape.startswith("parser") and any(c.startswith("p") for c in calls[-1:])):
        # a raising user check is reported as a failed check
        asserts.append(("fault/reported_as_failed_check", v.holds(o["kind"] in ("SchemaError", "SchemaErrors"))))
        if o["kind"] == "SchemaErrors" and not _flag_true(v, v.bool("as_schema_error")):
            asserts.append(("fault/reason_check_error", v.holds("CHECK_ERROR" in o["reasons"])))
    if n_injected and shape.startswith("parser"):
        asserts.append(("fault/parser_error_propagates", v.holds(o["kind"] != "accept")))
    return dict(obs=o, asserts=asserts, facts=dict(kind=o["kind"], reason=o.get("reason"), reasons=o.get("reasons"), calls=list(calls),
                                                   injected=n_injected, msg=o.get("msg")))


def _flag_true(v, f):
    """the fault flag of an invocation that happened is path-concrete: the callback branched on it"""
    if not v.sym:
        return bool(f)
    from symx import eng

    return z3.is_true(z3.simplify(z3.substitute(f.z))) if False else _decided(eng(), f.z)


def _decided(e, z):
    for c in e.pc:
        if c.eq(z):
            return True
        if z3.is_not(c) and c.arg(0).eq(z):
            return False
    return False


# ------------------------------------------------------------------ lazy vs eager; exactness of the report (C02)
CHECK_ID = {"nullable": "not_nullable", "unique": "field_uniqueness", "joint_unique": "multiple_fields_uniqueness",
            "eq": "equal_to", "ne": "not_equal_to", "gt": "greater_than", "ge": "greater_than_or_equal_to", "lt": "less_than",
            "le": "less_than_or_equal_to", "in_range": "in_range", "isin": "isin", "notin": "notin", "str_matches": "str_matches",
            "str_contains": "str_contains", "str_startswith": "str_startswith", "str_endswith": "str_endswith", "str_length": "str_length"}


def _check_id(label):
    base = label.split(":")[-1]
    return CHECK_ID.get(base, base)


def _num_eq(a, b):
    if z3.is_expr(a) and z3.is_expr(b):
        if a.sort() == b.sort():
            return a == b
        if (z3.is_int(a) or z3.is_real(a)) and (z3.is_int(b) or z3.is_real(b)):
            return (z3.ToReal(a) if z3.is_int(a) else a) == (z3.ToReal(b) if z3.is_int(b) else b)
    return z3.BoolVal(False)


def report_exact_terms(v, fc, viol, cells, labels):
    """z3 terms stating that the consolidated failure-case table `fc` (shim frame) lists exactly the violating cells.
    viol: (column label, constraint label) -> per-row violation terms; cells: column -> (xs, ns); labels: row label terms."""
    cols = {k: c for k, c in fc._cols}
    R = len(fc.present)
    slot = []
    for r in range(R):
        ctx, col, chk = cols["schema_context"].vals[r], cols["column"].vals[r], cols["check"].vals[r]
        slot.append(dict(p=fc.present[r], col=str(col) if not z3.is_expr(col) else None, chk=str.__str__(chk).split("(")[0] if isinstance(chk, str) else str(chk).split("(")[0],
                         idx=cols["index"].vals[r], idx_null=cols["index"].nulls[r], val=cols["failure_case"].vals[r], val_null=cols["failure_case"].nulls[r]))
    complete, sound = [], []
    keyed = {}
    for (c, k), ts in viol.items():
        keyed[(c, _check_id(k))] = (c, k, ts)
    for (c, kid), (c0, k, ts) in keyed.items():
        cands = [s for s in slot if s["chk"] == kid and (s["col"] == str(c) or c == "*")]
        for i, t in enumerate(ts):
            if c == "*":
                # joint uniqueness lists one entry per column of the subset and row
                hit = zor(z3.And(s["p"], z3.Not(s["idx_null"]), _num_eq(s["idx"], labels[i])) for s in cands)
            else:
                xs, ns = cells[c]
                hit = zor(z3.And(s["p"], z3.Not(s["idx_null"]), _num_eq(s["idx"], labels[i]),
                                 z3.If(ns[i], s["val_null"], z3.And(z3.Not(s["val_null"]), _num_eq(s["val"], xs[i]) if z3.is_expr(s["val"]) else z3.BoolVal(False))))
                          for s in cands)
            complete.append(z3.Implies(t, hit))
    row_ids = {kid for (_, kid) in keyed}
    for s in slot:
        if s["chk"] not in row_ids:
            continue
        alts = []
        for (c, kid), (c0, k, ts) in keyed.items():
            if kid != s["chk"] or not (c == "*" or s["col"] == str(c)):
                continue
            for i, t in enumerate(ts):
                same_cell = z3.BoolVal(True)
                if c != "*":  # the entry carries the value of that cell (labels may repeat: the label alone does not identify the cell)
                    xs, ns = cells[c]
                    same_cell = z3.If(ns[i], s["val_null"], z3.And(z3.Not(s["val_null"]), _num_eq(s["val"], xs[i]) if z3.is_expr(s["val"]) else z3.BoolVal(False)))
                alts.append(z3.And(t, z3.Not(s["idx_null"]), _num_eq(s["idx"], labels[i]), same_cell))
        sound.append(z3.Implies(s["p"], zor(alts)))
    return zand(complete), zand(sound)


def zor(xs):
    xs = list(xs)
    return z3.Or(*xs) if xs else z3.BoolVal(False)


def zand(xs):
    xs = list(xs)
    return z3.And(*xs) if xs else z3.BoolVal(True)


def report_exact_real(fc, vals, viol, cells, labels):
    """the same statement evaluated on a real failure-case table under a concrete assignment"""
    import math

    def num(x):
        try:
            f = float(x)
            return None if math.isnan(f) else f
        except (TypeError, ValueError):
            return None if x is None else str(x)

    rows = []
    for _, r in fc.iterrows():
        idx = r["index"]
        rows.append((str(r["column"]), str(r["check"]).split("(")[0], None if (idx is None or (isinstance(idx, float) and math.isnan(idx))) else num(idx),
                     num(r["failure_case"])))
    want = []
    for (c, k), ts in viol.items():
        for i, t in enumerate(ts):
            if vals.term(t):
                lab = num(vals.term(labels[i]))
                if c == "*":
                    want.append(("*", _check_id(k), lab, None))
                else:
                    xs, ns = cells[c]
                    want.append((str(c), _check_id(k), lab, None if vals.term(ns[i]) else num(vals.term(xs[i]))))
    row_ids = {_check_id(k) for (_, k) in viol}
    listed = [r for r in rows if r[1] in row_ids]
    complete = all(any((w[0] == "*" or w[0] == r[0]) and w[1] == r[1] and w[2] == r[2] and (w[0] == "*" or w[3] == r[3]) for r in listed) for w in want)
    sound = all(any((w[0] == "*" or w[0] == r[0]) and w[1] == r[1] and w[2] == r[2] and (w[0] == "*" or w[3] == r[3]) for w in want) for r in listed)
    return complete, sound


def lazy_case(v, shape, N, opts):
    """runs the same (S, D) eagerly and lazily"""
    opts = dict(opts)
    if shape == "series":
        kind, cname = opts.get("kind", "float"), opts.get("check", "ge")
        # (dup_labels: row labels may repeat — the report still names exactly the failing (label, value) cells)
        obj = v.series("x", kind, N, sname="s", labels="l", distinct_labels=not opts.get("dup_labels"))
        mk = O.numeric_check if kind in ("int", "float") else O.string_check
        cs = mk(v, cname, opts.get("ina", True))
        fs = O.FieldSpec(kind, nullable=v.bool("nullable"), unique=v.bool("unique"), checks=[cs], name="s",
                         report_duplicates=opts.get("rd", "all"))
        try:
            schema = O.build_series_schema(pa, Check, fs, v)
        except ValueError:
            return dict(obs=None, asserts=[], facts=dict(kind="ctor ValueError"))
        xs, ns = v.cells("x", kind, N, kind in ("float", "str"))
        cells = {"s": (xs, ns)}
        viol = {("s", k): ts for k, ts in fs.row_violations(v, xs, ns).items()}
        frame_level = []
    else:
        kinds = dict(KINDS, **opts.get("kinds", {}))
        arr = [(c, kinds[c]) for c in opts.get("arr", ["a", "b"])]
        obj = v.frame(arr, N, labels="l", distinct_labels=True)
        ca = O.numeric_check(v, opts.get("check_a", "ge"), True, tag="A")
        cb = O.numeric_check(v, opts.get("check_b", "isin"), True, tag="B")
        a_decl = "int" if opts.get("coerce_a_int") else "float"
        fa = O.FieldSpec(a_decl, nullable=v.bool("nullable"), unique=v.bool("unique_a"), checks=[ca], report_duplicates=opts.get("rd", "all"),
                         regex=bool(opts.get("regex")), coerce=bool(opts.get("coerce_a_int")))
        fb = O.FieldSpec("int", checks=[cb])
        key_a = opts.get("regex") or "a"
        spec = O.FrameSpec({key_a: fa, "b": fb}, strict=opts.get("strict", False), unique=opts.get("unique"), report_duplicates=opts.get("rd", "all"))
        # index_coerce_float: an Index(float, coerce=True) over integer row labels always conforms after coercion
        schema = spec.build(pa, Check, **({"index": pa.Index(float, coerce=True)} if opts.get("index_coerce_float") else {}))
        cells = {c: v.cells(f"{c}_", k, N, k in ("float", "str")) for c, k in arr}
        viol = {k: ts for k, ts in spec.row_violations(v, arr, cells).items()}
        frame_level = []
        labels_present = [a[0] for a in arr]
        governed = spec.matches(labels_present)
        if not governed[key_a]:
            frame_level.append("column_in_dataframe")
        if "b" not in labels_present:
            frame_level.append("column_in_dataframe")
        if opts.get("strict") is True and any(l not in governed[key_a] + ["b"] for l in labels_present):
            frame_level.append("column_in_schema")
        # scalar entries that name a column: a physical dtype other than the declared one (C02: the report names the offending column)
        dtype_entries = sorted((l, "dtype") for key, fs in spec.columns.items() for l in governed[key] if dict(arr)[l] != fs.kind and not fs.coerce)
    labels = [z3.Int(f"l{i}") for i in range(N)]
    depth = {"SO": "SCHEMA_ONLY", "DO": "DATA_ONLY"}.get(opts.get("depth"))

    def run(lz):
        if depth:
            from pandera.config import ValidationDepth, config_context

            with config_context(validation_depth=getattr(ValidationDepth, depth)):
                return schema.validate(obj, lazy=lz)
        return schema.validate(obj, lazy=lz)

    oe = H.outcome(lambda: run(False))
    ol = H.outcome(lambda: run(True))
    raised_e, raised_l = oe["kind"] != "accept", ol["kind"] != "accept"
    asserts = [("lazy_eager_agree", v.holds(raised_e == raised_l)),
               ("lazy/channel", v.holds(channel_ok(oe) and channel_ok(ol) and oe["kind"] in ("accept", "SchemaError") and ol["kind"] in ("accept", "SchemaErrors")))]
    facts = dict(eager=oe["kind"], lazy=ol["kind"], eager_reason=oe.get("reason"), lazy_reasons=ol.get("reasons"))
    if oe["kind"] == "SchemaError" and ol["kind"] == "SchemaErrors":
        e = oe["exc"]
        key = (str(e.reason_code), _err_check_id(e), str(getattr(e.schema, "name", None)))
        lazy_keys = [(str(x.reason_code), _err_check_id(x), str(getattr(x.schema, "name", None))) for x in ol["exc"].schema_errors]
        asserts.append(("eager_error_among_lazy", v.holds(key in lazy_keys)))
        facts["eager_key"] = list(key)
    if ol["kind"] == "SchemaErrors" and opts.get("index_coerce_float"):
        # no entry for a conforming component: the index coerces, whatever happens to the columns
        ctxs = sorted({type(x.schema).__name__ for x in ol["exc"].schema_errors})
        asserts.append(("report/no_entry_for_conforming_index", v.holds("Index" not in ctxs)))
        facts["error_schemas"] = ctxs
    if ol["kind"] == "SchemaErrors" and (depth or opts.get("coerce_a_int")):
        # under a restricted depth / with coercion only the depth-independent clauses are asserted: the counts per reason equal
        # the number of collected errors with that reason
        from collections import Counter

        exc = ol["exc"]
        cnt = Counter(str(x.reason_code).split(".")[-1] for x in exc.schema_errors)
        asserts.append(("report/error_counts", v.holds(dict(cnt) == {str(k).split(".")[-1]: n for k, n in dict(exc.error_counts).items()})))
        facts["counts"] = [dict(cnt), {str(k).split(".")[-1]: n for k, n in dict(exc.error_counts).items()}]
    elif ol["kind"] == "SchemaErrors":
        exc = ol["exc"]
        fc = exc.failure_cases
        if shape != "series":
            got = _dtype_entries(fc, v)
            asserts.append(("report/dtype_entries_name_the_column", v.holds(sorted(got) == dtype_entries)))
            facts["dtype_entries"] = [sorted(got), dtype_entries]
        if isinstance(fc, symframe.DataFrame):
            comp, sound = report_exact_terms(v, fc, viol, cells, labels)
            asserts.append(("report/complete", v.holds(comp)))
            asserts.append(("report/sound", v.holds(sound)))
        elif v.sym:
            # the table holds scalar (concrete) entries only: no row-level violation may exist on this path
            row_ids = {_check_id(k) for (_, k) in viol}
            listed = [r for _, r in fc.iterrows() if str(r["check"]).split("(")[0] in row_ids]
            asserts.append(("report/complete", v.holds(z3.Not(zor(t for ts in viol.values() for t in ts)))))
            asserts.append(("report/sound", v.holds(not listed)))
        else:
            comp, sound = report_exact_real(fc, v.vals, viol, cells, labels)
            asserts.append(("report/complete", comp))
            asserts.append(("report/sound", sound))
        # error counts per reason equal the number of collected errors with that reason
        from collections import Counter

        cnt = Counter(str(x.reason_code).split(".")[-1] for x in exc.schema_errors)
        asserts.append(("report/error_counts", v.holds(dict(cnt) == {str(k).split(".")[-1]: n for k, n in dict(exc.error_counts).items()})))
        # one scalar entry per violated frame-level constraint
        if frame_level is not None and shape != "series":
            got = _scalar_entries(fc, v)
            asserts.append(("report/frame_level_entries", v.holds(sorted(got) == sorted(frame_level))))
            facts["frame_level"] = [sorted(got), sorted(frame_level)]
    return dict(obs=ol, asserts=asserts, facts=facts)


def _err_check_id(e):
    c = e.check
    if c is None:
        return None
    if isinstance(c, str):
        return c.split("(")[0]
    return str(getattr(c, "name", None) or c).split("(")[0]


def _dtype_entries(fc, v):
    """(column, 'dtype') for every scalar entry of a failure-case table that reports a wrong physical dtype"""
    out = []
    if isinstance(fc, symframe.DataFrame):
        cols = {k: c for k, c in fc._cols}
        for r in range(len(fc.present)):
            chk = str(cols["check"].vals[r])
            if chk.startswith("dtype("):
                if v.sym:
                    from symx import eng

                    if eng().branch(fc.present[r]):
                        out.append((str(cols["column"].vals[r]), "dtype"))
                elif v.vals.term(fc.present[r]):
                    out.append((str(cols["column"].vals[r]), "dtype"))
    else:
        for _, r in fc.iterrows():
            if str(r["check"]).startswith("dtype("):
                out.append((str(r["column"]), "dtype"))
    return out


def _scalar_entries(fc, v):
    """check ids of the scalar (index-less) entries of a failure-case table that belong to frame-level constraints"""
    ids = ("column_in_dataframe", "column_in_schema", "column_ordered", "dataframe_column_labels_unique")
    out = []
    if isinstance(fc, symframe.DataFrame):
        cols = {k: c for k, c in fc._cols}
        for r in range(len(fc.present)):
            chk = str(cols["check"].vals[r]).split("(")[0]
            if chk in ids:
                if v.sym:
                    from symx import eng

                    if eng().branch(fc.present[r]):
                        out.append(chk)
                elif v.vals.term(fc.present[r]):
                    out.append(chk)
    else:
        for _, r in fc.iterrows():
            chk = str(r["check"]).split("(")[0]
            if chk in ids:
                out.append(chk)
    return out


# ------------------------------------------------------------------ drop_invalid_rows removes exactly the violating rows (C11)
def rows_kept_terms(v, out, n):
    """per input position: term/bool stating that the row is present in `out` (which must be a row subset of the input in
    original order).  shim: the presence flags; real: matched by label (labels are distinct by assumption)."""
    if isinstance(out, (symframe.DataFrame, symframe.Series)):
        if len(out.present) != n:
            return None
        return list(out.present)
    return None


def drop_case(v, shape, N, opts):
    opts = dict(opts)
    lo = v.int("aA")
    nullable, unique_a = v.bool("nullable"), v.bool("unique_a")
    rd = opts.get("rd", "all")
    coerce = bool(opts.get("coerce"))
    a_kind = "int" if coerce else "float"
    labels = [z3.Int(f"l{i}") for i in range(N)]
    if shape == "series_Int":  # nullable integer extension dtype: <NA> cells in an integer column
        a_kind = "Int"
        obj = v.series("a_", "Int", N, sname="a", labels="l", distinct_labels=True)
        schema = pa.SeriesSchema("Int64", Check.ge(lo), nullable=nullable, unique=unique_a, report_duplicates=rd, name="a", drop_invalid_rows=True)
        arr = [("a", "Int")]
    elif shape == "series":
        obj = v.series("a_", a_kind, N, sname="a", labels="l", distinct_labels=True)
        schema = pa.SeriesSchema(float, Check.ge(lo), nullable=nullable, unique=unique_a, report_duplicates=rd, coerce=coerce, name="a",
                                 drop_invalid_rows=True)
        arr = [("a", a_kind)]
    elif shape == "column":
        arr = [("a", a_kind), ("b", "int")]
        obj = v.frame(arr, N, labels="l", distinct_labels=True)
        schema = pa.Column(float, Check.ge(lo), nullable=nullable, unique=unique_a, report_duplicates=rd, coerce=coerce, name="a", drop_invalid_rows=True)
    elif shape in ("frame", "frame_wide", "frame_wide3", "frame_joint", "frame_sets", "frame_nfc", "frame_nfc_mi", "frame_nested", "frame_index", "model"):
        arr = [("a", a_kind), ("b", "int")]
        # frame_wide: the dataframe-level check compares a with b; its treatment of null rows is C19's subject, so a is null-free here
        # frame_wide3: a third, nullable column that the check does not look at (its nulls must not shield a failing row)
        extra = [("c", "float")] if shape == "frame_wide3" else []
        arr = arr + extra
        if shape == "frame_nfc_mi":  # the same on a frame with a two-level MultiIndex (row labels are tuples)
            obj = v.mi_frame([("a", a_kind), ("b", "int")], N, levels=[("k0", "l"), ("k1", "m")])
            if v.sym:  # the property is stated for data with a unique index: the label tuples are pairwise distinct
                from symx import eng as _eng

                for i in range(N):
                    for j in range(i):
                        _eng().assume(z3.Or(z3.Int(f"l{i}") != z3.Int(f"l{j}"), z3.Int(f"m{i}") != z3.Int(f"m{j}")))
        else:
            obj = v.frame([("a", a_kind, False if shape.startswith("frame_wide") else None), ("b", "int")] + extra, N, labels="l", distinct_labels=True)
        kw = {}
        if shape.startswith("frame_wide"):
            kw["checks"] = Check(lambda d: d["a"] >= d["b"], ignore_na=True)
        if shape == "frame_joint":
            kw["unique"] = ["a", "b"]
            kw["report_duplicates"] = rd
        if shape == "frame_sets":  # two uniqueness declarations: rows duplicated in a, and rows duplicated in b
            kw["unique"] = [["a"], ["b"]]
            kw["report_duplicates"] = rd
        if shape == "frame_index":
            kw["index"] = pa.Index(int, Check.ge(v.int("ilo")))
        if shape == "model":
            class M(pa.DataFrameModel):
                a: float = pa.Field(ge=lo, nullable=nullable, unique=unique_a, coerce=coerce)
                b: int = pa.Field(isin=[1, 2, 3])

                class Config:
                    drop_invalid_rows = True

            schema = M
        else:
            # frame_nfc: the check reports at most one failure case (n_failure_cases limits the REPORT, not the set of invalid rows)
            cols_ = {"a": pa.Column(float, Check.ge(lo, **({"n_failure_cases": 1} if shape.startswith("frame_nfc") else {})), nullable=nullable, unique=unique_a,
                                    report_duplicates=rd, coerce=coerce),
                     "b": pa.Column(int, Check.isin([1, 2, 3]))}
            if shape == "frame_wide3":
                cols_["c"] = pa.Column(float, nullable=True)
            if shape == "frame_nested":  # the flag is set on the column inside the frame schema, not on the frame schema; b is unconstrained
                cols_ = {"a": pa.Column(float, Check.ge(lo), nullable=nullable, unique=unique_a, report_duplicates=rd, coerce=coerce, drop_invalid_rows=True),
                         "b": pa.Column(int)}
            schema = pa.DataFrameSchema(cols_, drop_invalid_rows=shape != "frame_nested", **kw)
    snap = H.snapshot(obj)
    o = H.outcome(lambda: schema.validate(obj, lazy=True))
    cells = {c: v.cells(f"{c}_", k, N, k in ("float", "str", "Int") and not (shape.startswith("frame_wide") and c == "a")) for c, k in arr}
    xa, na = cells["a"]
    # ---- oracle: row i is invalid iff it violates a row-level constraint (uniqueness as reported)
    bad = []
    dups = O.dup_rows(N, lambda i, j: O.eq_cell(xa, na, i, j), rd if shape != "model" else "all")
    for i in range(N):
        b = [z3.And(z3.Not(v.z(nullable)), na[i]), z3.And(v.z(unique_a), dups[i]), z3.And(z3.Not(na[i]), z3.Not(xa[i] >= v.z(lo)))]
        if shape not in ("series", "column", "series_Int", "frame_nested"):
            xb, nb = cells["b"]
            b.append(z3.Not(z3.Or(xb[i] == 1, xb[i] == 2, xb[i] == 3)))
        if shape.startswith("frame_wide"):
            xb, _ = cells["b"]
            b.append(z3.And(z3.Not(na[i]), z3.Not((z3.ToReal(xa[i]) if z3.is_int(xa[i]) else xa[i]) >= z3.ToReal(xb[i]))))
        if shape == "frame_index":
            b.append(z3.Not(labels[i] >= z3.Int("ilo")))
        bad.append(z3.Or(*b))
    if shape == "frame_joint":
        xb, nb = cells["b"]
        jd = O.dup_rows(N, lambda i, j: z3.And(O.eq_cell(xa, na, i, j), O.eq_cell(xb, nb, i, j)), rd)
        bad = [z3.Or(b, d) for b, d in zip(bad, jd)]
    if shape == "frame_sets":
        xb, nb = cells["b"]
        da = O.dup_rows(N, lambda i, j: O.eq_cell(xa, na, i, j), rd)
        db = O.dup_rows(N, lambda i, j: O.eq_cell(xb, nb, i, j), rd)
        bad = [z3.Or(b, d1, d2) for b, d1, d2 in zip(bad, da, db)]
    asserts = [("drop/channel", v.holds(channel_ok(o))), ("drop/returns", v.holds(o["kind"] == "accept")),
               ("drop/input_unchanged", H.equal_to_snapshot(v, obj, snap))]
    facts = dict(kind=o["kind"], reasons=o.get("reasons"), msg=o.get("msg"))
    if o["kind"] == "accept":
        out = o["out"]
        if v.sym:
            pres = rows_kept_terms(v, out, N)
            if pres is None:
                asserts.append(("drop/exact_rows", v.holds(False)))
            else:
                asserts.append(("drop/no_invalid_row_survives", v.holds(zand(z3.Implies(p, z3.Not(b)) for p, b in zip(pres, bad)))))
                asserts.append(("drop/no_valid_row_dropped", v.holds(zand(z3.Implies(z3.Not(b), p) for p, b in zip(pres, bad)))))
                asserts.append(("drop/values_unchanged", H.equal_to_snapshot(v, out, snap, values_only=True, subset=True)))
        else:
            keep = [not v.vals.term(b) for b in bad]
            if shape == "frame_nfc_mi":
                got_labels = [tuple(int(y) for y in x) for x in out.index.tolist()]
                lab = [(int(v.vals.term(z3.Int(f"l{i}"))), int(v.vals.term(z3.Int(f"m{i}")))) for i in range(N)]
            else:
                got_labels = [int(x) for x in out.index.tolist()]
                lab = [v.vals.term(labels[i]) for i in range(N)]
            surv = set(got_labels)
            asserts.append(("drop/no_invalid_row_survives", all(keep[i] for i in range(N) if lab[i] in surv)))
            asserts.append(("drop/no_valid_row_dropped", all(lab[i] in surv for i in range(N) if keep[i])))
            ref = snap[1]
            same = True
            try:
                sub = ref.loc[got_labels]
                a_out = out if not hasattr(out, "columns") else out
                same = bool(_values_equal_real(a_out, sub)) and got_labels == [l for l in lab if l in surv]
            except Exception:  # noqa: BLE001
                same = False
            asserts.append(("drop/values_unchanged", same))

    return dict(obs=o, asserts=asserts, facts=facts)


def _with_all_present(out):
    """view of a shim object with every slot marked present — compares surviving cells against the input snapshot"""
    return out


def _values_equal_real(a, b):
    import numpy as np

    if hasattr(a, "columns"):
        if list(a.columns) != list(b.columns) or len(a) != len(b):
            return False
        return all(_values_equal_real(a[c], b[c]) for c in a.columns)
    if len(a) != len(b):
        return False
    for x, y in zip(a.tolist(), b.tolist()):
        xn, yn = H._isnull(x), H._isnull(y)
        if xn != yn or (not xn and float(x) != float(y) if isinstance(x, (int, float, np.number)) else (not xn and x != y)):
            return False
    return True


# ------------------------------------------------------------------ head / tail / sample (C20)
def subsample_index_case(v, shape, N, which):
    """head/tail on a schema whose INDEX component carries the constraints (SeriesSchema(index=Index(...)) / a stand-alone Index):
    the row labels may repeat — a repeated label is two rows, both are validated when selected"""
    lo = v.int("ilo")
    uniq = v.bool("idx_unique")
    h = v.int("h", 0, N) if "head" in which else None
    t = v.int("t", 0, N) if "tail" in which else None
    kw = {}
    if h is not None:
        kw["head"] = h
    if t is not None:
        kw["tail"] = t
    labels = [z3.Int(f"l{i}") for i in range(N)]
    if shape == "series_index":
        obj = v.series("x", "float", N, sname="s", labels="l")
        schema = pa.SeriesSchema(float, nullable=True, name="s", index=pa.Index(int, Check.ge(lo), unique=uniq))
    else:
        obj = v.frame([("a", "float")], N, labels="l")
        schema = pa.Index(int, Check.ge(lo), unique=uniq)
    snap = H.snapshot(obj)
    o = H.outcome(lambda: schema.validate(obj, **kw))
    sel = []
    for i in range(N):
        s_ = []
        if h is not None:
            s_.append(z3.IntVal(i) < v.z(h))
        if t is not None:
            s_.append(z3.IntVal(i) >= N - v.z(t))
        sel.append(z3.Or(*s_) if s_ else z3.BoolVal(True))
    viol = []
    for i in range(N):
        dup = zor(z3.And(sel[j], labels[i] == labels[j]) for j in range(N) if j != i)
        viol.append(z3.And(sel[i], z3.Or(z3.Not(labels[i] >= v.z(lo)), z3.And(v.z(uniq), dup))))
    asserts = [("subsample/index_verdict", v.iff(o["kind"] == "accept", z3.Not(zor(viol)))), ("subsample/channel", v.holds(channel_ok(o))),
               ("subsample/input_unchanged", H.equal_to_snapshot(v, obj, snap))]
    if o["kind"] == "accept":
        asserts.append(("subsample/returns_whole_object", H.equal_to_snapshot(v, o["out"], snap)))
    return dict(obs=o, asserts=asserts, facts=dict(kind=o["kind"], reason=o.get("reason"), h=None if h is None else 1, t=None if t is None else 1))


def subsample_case(v, shape, N, which):
    """which: subset of {'head','tail','sample'} that is passed (the others stay None)"""
    lo = v.int("lo")
    if shape == "series":
        obj = v.series("a_", "float", N, nullable=False, sname="a", labels="l")
        schema = pa.SeriesSchema(float, Check.ge(lo), name="a", unique=v.bool("unique"))
    elif shape == "series_nulls":  # nullability is a row-level constraint like any other: only the selected rows count
        obj = v.series("a_", "float", N, sname="a", labels="l")
        nullable_s = v.bool("nullable")
        schema = pa.SeriesSchema(float, Check.ge(lo), name="a", nullable=nullable_s)
    elif shape == "model":  # the class-based entry point forwards head/tail/sample/random_state to the same machinery
        obj = v.frame([("a", "float", False), ("b", "int")], N, labels="l")
        uq = v.bool("unique")

        class M(pa.DataFrameModel):
            a: float = pa.Field(ge=lo, unique=uq)
            b: int

        schema = M
    else:
        obj = v.frame([("a", "float", False), ("b", "int")], N, labels="l")
        schema = pa.DataFrameSchema({"a": pa.Column(float, Check.ge(lo), unique=v.bool("unique")), "b": pa.Column(int)},
                                    checks=Check(lambda d: d["b"] <= 5) if shape == "frame_wide" else None)
    rng = list(range(N + 1))
    h = v.choice("h", rng) if "head" in which else None
    t = v.choice("t", rng) if "tail" in which else None
    n = v.choice("n", rng) if "sample" in which else None
    rs = 7
    if not v.sym:
        obj = H.with_sample_stub(obj, v.vals, N)
    snap = H.snapshot(obj)
    o = H.outcome(lambda: schema.validate(obj, head=h, tail=t, sample=n, random_state=rs))
    xa, na = v.cells("a_", "float", N, shape == "series_nulls")
    picks = [z3.Bool(f"sample!{rs}!{i}") for i in range(N)]
    sel = []
    for i in range(N):
        s = []
        if h is not None:
            s.append(z3.BoolVal(i < h))
        if t is not None:
            s.append(z3.BoolVal(i >= N - t))
        if n is not None:
            s.append(picks[i])
        sel.append(zor(s) if which else z3.BoolVal(True))
    ok_rows = [z3.Implies(sel[i], xa[i] >= v.z(lo)) for i in range(N)]
    if shape == "series_nulls":
        ok_rows = [z3.Implies(sel[i], z3.If(na[i], v.z(nullable_s), xa[i] >= v.z(lo))) for i in range(N)]
    uniq = v.z(schema.unique if shape in ("series", "series_nulls") else (uq if shape == "model" else schema.columns["a"].unique))
    nodup = zand(z3.Not(z3.And(sel[i], sel[j], xa[i] == xa[j])) for i in range(N) for j in range(i))
    wide = zand(z3.Implies(sel[i], z3.Int(f"b_{i}") <= 5) for i in range(N)) if shape == "frame_wide" else z3.BoolVal(True)
    spec = z3.And(zand(ok_rows), z3.Implies(uniq, nodup), wide)
    asserts = [("subsample/channel", v.holds(channel_ok(o)))]
    sample_possible = True
    if o["kind"].startswith("leak:ValueError") and n is not None:
        # pandas refuses n > population; with n <= N this cannot happen
        sample_possible = False
    asserts.append(("subsample/verdict", v.iff(o["kind"] == "accept", spec)))
    if o["kind"] == "accept":
        asserts.append(("subsample/returns_whole_object", H.equal_to_snapshot(v, o["out"], snap)))
    return dict(obs=o, asserts=asserts, facts=dict(kind=o["kind"], reason=o.get("reason"), h=h, t=t, n=n, msg=o.get("msg")))


# ------------------------------------------------------------------ check options do only what they document (C19)
def _fc_present(res, N):
    fc = res.failure_cases
    if fc is None:
        return None
    return fc


def _failing_rows(v, res, N, labels):
    """per input position: term/bool 'row is listed among the failure cases of this CheckResult' (labels distinct)"""
    fc = res.failure_cases
    if fc is None:
        return [v.holds(False)] * N
    if isinstance(fc, (symframe.Series, symframe.DataFrame)):
        if len(fc.present) == N:
            return [v.holds(p) for p in fc.present]
        return None
    got = set(int(x) for x in fc.index.tolist()) if hasattr(fc, "index") else set()
    return [v.vals.term(labels[i]) in got for i in range(N)]


def _rows_listed_by_label(v, res, N, labels):
    """per input position: 'a failure case carries this row's label' (failure cases of a dataframe-level check are keyed by label)"""
    fc = res.failure_cases
    if fc is None:
        return [v.holds(False)] * N
    if isinstance(fc, symframe.DataFrame):
        idx = fc.index.labels
        return [zor(z3.And(fc.present[s], idx[s] == labels[i]) for s in range(len(fc.present))) for i in range(N)]
    if v.sym:
        if len(fc) == 0:  # the concrete empty table pandera builds when nothing failed on this path
            return [v.holds(False)] * N
        raise ModelGapT("concrete failure cases on a symbolic path")
    got = set(int(x) for x in fc.index.tolist())
    return [int(v.vals.term(labels[i])) in got for i in range(N)]


def _as_bool(v, x):
    if isinstance(x, SymBoolT):
        return x.z
    return z3.BoolVal(bool(x)) if v.sym else bool(x)


from symx import SymBool as SymBoolT  # noqa: E402


def option_case(v, what, N, opts):
    opts = dict(opts)
    kind = opts.get("kind", "float")
    ser = v.series("x", kind, N, sname="s", labels="l", distinct_labels=True)
    labels = [z3.Int(f"l{i}") for i in range(N)]
    xs, ns = v.cells("x", kind, N, kind in ("float", "str", "Int"))
    c = v.int("c")
    m = 2
    fam = opts.get("pred", "gt")
    # predicate family: vectorised and element-wise twins + the documented element predicate
    preds = {
        "gt": (lambda s: s > c, lambda x: x > c, lambda x: x > v.z(c)),
        "eq": (lambda s: s == c, lambda x: x == c, lambda x: x == v.z(c)),
        "le": (lambda s: s <= c, lambda x: x <= c, lambda x: x <= v.z(c)),
        "between": (lambda s: (s > c) & (s <= c + 3), lambda x: (x > c) & (x <= c + 3), lambda x: z3.And(x > v.z(c), x <= v.z(c) + 3)),
    }
    f_vec, f_el, f_z = preds[fam]
    asserts, facts = [], dict(what=what)
    Bz = lambda b: (b.z if isinstance(b, SymBoolT) else z3.BoolVal(bool(b))) if v.sym else bool(b)  # noqa: E731

    def both(a, b):
        return (a == b) if v.sym else (bool(a) == bool(b))

    if what == "element_wise":
        ina = bool(opts.get("ina", True))
        saw_null = []

        def f_elw(x):
            if x is None or (isinstance(x, float) and x != x):
                saw_null.append(1)
                return False
            return f_el(x)

        r1 = Check(f_elw, element_wise=True, ignore_na=ina)(ser)
        r2 = Check(f_vec, ignore_na=ina)(ser)
        asserts.append(("opt/element_wise_verdict", v.holds(both(Bz(r1.check_passed), Bz(r2.check_passed)))))
        f1, f2 = _failing_rows(v, r1, N, labels), _failing_rows(v, r2, N, labels)
        if f1 is not None and f2 is not None:
            asserts.append(("opt/element_wise_failure_rows", v.holds(zand(both(a, b) for a, b in zip(f1, f2)) if v.sym else all(a == b for a, b in zip(f1, f2)))))
        asserts.append(("opt/ignore_na_hides_nulls", v.holds(not (ina and saw_null))))
        # documented verdict: every (non-ignored) element satisfies the predicate
        spec = zand(z3.If(ns[i], z3.BoolVal(ina), f_z(xs[i])) for i in range(N))
        asserts.append(("opt/element_wise_spec", v.iff(Bz(r1.check_passed) if v.sym else bool(r1.check_passed), spec)))
    elif what == "n_failure_cases":
        n = v.choice("n", [0, 1, 2, 3][:max(2, N + 1)])  # (zero is a legal limit: nothing is reported, the verdict stands)
        r_all, r_n = Check(f_vec)(ser), Check(f_vec, n_failure_cases=n)(ser)
        asserts.append(("opt/n_failure_cases_verdict", v.holds(both(Bz(r_all.check_passed), Bz(r_n.check_passed)))))
        fa, fn = _failing_rows(v, r_all, N, labels), _failing_rows(v, r_n, N, labels)
        if fa is not None and fn is not None:
            if v.sym:
                cnt = lambda ts: z3.Sum([z3.If(t, 1, 0) for t in ts]) if ts else z3.IntVal(0)  # noqa: E731
                asserts.append(("opt/n_failure_cases_subset", zand(z3.Implies(b, a) for a, b in zip(fa, fn))))
                asserts.append(("opt/n_failure_cases_count", cnt(fn) == z3.If(cnt(fa) < n, cnt(fa), n)))
                asserts.append(("opt/n_failure_cases_first", zand(z3.Implies(z3.And(fa[i], z3.Not(fn[i])), zand(z3.Not(fn[j]) for j in range(i + 1, N))) for i in range(N))))
            else:
                asserts.append(("opt/n_failure_cases_subset", all((not b) or a for a, b in zip(fa, fn))))
                asserts.append(("opt/n_failure_cases_count", sum(fn) == min(sum(fa), n)))
                asserts.append(("opt/n_failure_cases_first", all(not (fa[i] and not fn[i]) or not any(fn[i + 1:]) for i in range(N))))
    elif what == "n_failure_cases_frame":
        # a dataframe-level check whose output is a boolean frame: the report is truncated, the verdict is not
        n = v.choice("n", [1, 2])
        df = v.frame([("p", "float", False), ("q", "float", False)], N, labels="l", distinct_labels=True)
        (xp, _), (xq, _) = v.cells("p_", "float", N, False), v.cells("q_", "float", N, False)
        wide = lambda d: d >= c  # noqa: E731
        r_all, r_n = Check(wide)(df), Check(wide, n_failure_cases=n)(df)
        asserts.append(("opt/n_failure_cases_verdict", v.holds(both(Bz(r_all.check_passed), Bz(r_n.check_passed)))))
        bad = [z3.Or(xp[i] < z3.ToReal(v.z(c)), xq[i] < z3.ToReal(v.z(c))) for i in range(N)]
        fa, fn = _rows_listed_by_label(v, r_all, N, labels), _rows_listed_by_label(v, r_n, N, labels)
        if v.sym:
            cnt = lambda ts: z3.Sum([z3.If(t, 1, 0) for t in ts]) if ts else z3.IntVal(0)  # noqa: E731
            asserts.append(("opt/n_failure_cases_full_report_exact", zand(a == b for a, b in zip(fa, bad))))
            asserts.append(("opt/n_failure_cases_subset", zand(z3.Implies(b, a) for a, b in zip(fa, fn))))
            asserts.append(("opt/n_failure_cases_count", z3.And(cnt(fn) <= n, z3.Implies(zor(fa), zor(fn)))))
        else:
            badv = [bool(v.vals.term(b)) for b in bad]
            asserts.append(("opt/n_failure_cases_full_report_exact", fa == badv))
            asserts.append(("opt/n_failure_cases_subset", all((not b) or a for a, b in zip(fa, fn))))
            asserts.append(("opt/n_failure_cases_count", sum(fn) <= n and ((not any(fa)) or any(fn))))
    elif what == "raise_warning":
        fn = f_vec
        if opts.get("scalar"):  # a check whose output is one boolean for the whole column (no per-element failure cases)
            fn = lambda s: f_vec(s).all()  # noqa: E731
        lz = bool(opts.get("lazy"))
        plain = H.outcome(lambda: pa.SeriesSchema(PYK[kind], Check(fn), nullable=True, name="s").validate(ser, lazy=lz))
        warn = H.outcome(lambda: pa.SeriesSchema(PYK[kind], Check(fn, raise_warning=True), nullable=True, name="s").validate(ser, lazy=lz))
        asserts.append(("opt/raise_warning_never_raises", v.holds(warn["kind"] == "accept")))
        asserts.append(("opt/raise_warning_warns_iff_fails", v.holds((warn.get("warnings", 0) > 0) == (plain["kind"] != "accept"))))
        facts.update(plain=plain["kind"], warn=warn["kind"], warnings=warn.get("warnings"))
    elif what == "alias":
        a, b = v.int("a"), v.int("b")
        pairs = [("eq", Check.eq(a), Check.equal_to(a)), ("ne", Check.ne(a), Check.not_equal_to(a)), ("gt", Check.gt(a), Check.greater_than(a)),
                 ("ge", Check.ge(a), Check.greater_than_or_equal_to(a)), ("lt", Check.lt(a), Check.less_than(a)),
                 ("le", Check.le(a), Check.less_than_or_equal_to(a))]
        try:
            pairs.append(("between", Check.between(a, b), Check.in_range(a, b)))
            imin, imax = v.bool("imin"), v.bool("imax")
            pairs.append(("between_flags", Check.between(a, b, imin, imax), Check.in_range(a, b, imin, imax)))
            pairs.append(("between_kw", Check.between(min_value=a, max_value=b, include_min=imin, include_max=imax), Check.in_range(a, b, include_min=imin, include_max=imax)))
        except ValueError:
            pass
        for name, x, y in pairs:
            rx, ry = x(ser), y(ser)
            asserts.append((f"opt/alias_{name}", v.holds(both(Bz(rx.check_passed), Bz(ry.check_passed)))))
            fx, fy = _failing_rows(v, rx, N, labels), _failing_rows(v, ry, N, labels)
            if fx is not None and fy is not None:
                asserts.append((f"opt/alias_{name}_failure_rows", v.holds(zand(both(p, q) for p, q in zip(fx, fy)) if v.sym else all(p == q for p, q in zip(fx, fy)))))
    elif what == "ignore_na_field":
        # ignore_na=True == the same check on the null-free rows; ignore_na=False shows nulls to the function
        seen = {True: [], False: []}

        def mk(flag):
            def fn(s):
                seen[flag].append(s.hasnans)
                return f_vec(s)
            return fn

        rT = Check(mk(True), ignore_na=True)(ser)
        specT = zand(z3.Or(ns[i], f_z(xs[i])) for i in range(N))
        asserts.append(("opt/ignore_na_true_spec", v.iff(Bz(rT.check_passed) if v.sym else bool(rT.check_passed), specT)))
        hn_T = seen[True][0] if seen[True] else False
        asserts.append(("opt/ignore_na_true_never_shows_null", v.holds(z3.Not(Bz(hn_T)) if v.sym else not bool(hn_T))))
        if kind != "Int":  # (a comparison with <NA> yields <NA>, which the masked-array machinery cannot turn into a verdict: not modelled)
            Check(mk(False), ignore_na=False)(ser)
            hn_F = seen[False][0] if seen[False] else False
            anynull = zor(ns)
            asserts.append(("opt/ignore_na_false_shows_null", v.iff(Bz(hn_F) if v.sym else bool(hn_F), anynull)))
    elif what == "groupby":
        keys = (["x", "y", "x", "y", "x"])[:N]
        df = v.frame([("val", "float", False), ("key", "str", False, keys)], N, labels="l", distinct_labels=True)
        xv, _ = v.cells("val_", "float", N, False)
        groups = opts.get("groups")
        got = {}

        def gfn(d):
            got.update(d)
            return all_true(d)

        def all_true(d):
            out = True
            for k in sorted(d):
                out = out & (d[k] > c).all()
            return out

        res = Check(gfn, groupby="key", groups=groups)(df, "val")
        want = sorted(set(keys) & set(groups)) if groups is not None else sorted(set(keys))
        asserts.append(("opt/groupby_keys", v.holds(sorted(got) == want)))
        spec = zand(xv[i] > v.z(c) for i in range(N) if keys[i] in want)
        asserts.append(("opt/groupby_verdict", v.iff(Bz(res.check_passed) if v.sym else bool(res.check_passed), spec)))
        # each group holds exactly the rows of its key
        ok = True
        for k in want:
            g = got.get(k)
            if g is None:
                ok = False
                continue
            if isinstance(g, symframe.Series):
                rows = [z3.is_true(z3.simplify(p)) for p in g.present]
                ok = ok and rows == [keys[i] == k for i in range(N)]
            else:
                ok = ok and [float(x) for x in g.tolist()] == [float(v.vals.term(xv[i])) for i in range(N) if keys[i] == k]
        asserts.append(("opt/groupby_group_contents", v.holds(ok)))
    elif what == "wide_ignore_na":
        df = v.frame([("p", "float"), ("q", "float")], N, labels="l", distinct_labels=True)
        (xp, np_), (xq, nq) = v.cells("p_", "float", N, True), v.cells("q_", "float", N, True)
        shown = []

        def wide(d):
            shown.append(d.isna().any(axis=None) if hasattr(d.isna(), "any") else False)
            return d["p"] >= d["q"]

        res = Check(lambda d: d["p"] >= d["q"], ignore_na=True)(df)
        # documented: rows with any null value are ignored
        spec = zand(z3.Or(np_[i], nq[i], xp[i] >= xq[i]) for i in range(N))
        asserts.append(("opt/wide_ignore_na_spec", v.iff(Bz(res.check_passed) if v.sym else bool(res.check_passed), spec)))
    else:
        raise KeyError(what)
    return dict(obs=None, asserts=asserts, facts=facts)


PYK = {"int": int, "float": float, "str": str}


# ------------------------------------------------------------------ schema transformations (C15)
T_ATTRS = ["nullable", "unique", "coerce", "required", "drop_invalid_rows", "report_duplicates", "default", "title", "description", "regex"]


def _attr_eq(v, x, y):
    from symx import SymInt as _SI, SymReal as _SR

    if isinstance(x, (SymBoolT, _SI, _SR)) or isinstance(y, (SymBoolT, _SI, _SR)):
        r = (x == y)
        return r.z if isinstance(r, SymBoolT) else z3.BoolVal(bool(r))
    r = (x == y) and type(x) is type(y) if not (x is None or y is None) else (x is y)
    return z3.BoolVal(bool(r)) if v.sym else bool(r)


def _col_same(v, c1, c2, skip=()):
    out = []
    for a in T_ATTRS:
        if a in skip:
            continue
        out.append((a, _attr_eq(v, getattr(c1, a, None), getattr(c2, a, None))))
    # checks: same number, same statistics
    s1 = [(k.name, sorted((n, repr(x)) for n, x in (k.statistics or {}).items())) for k in c1.checks]
    s2 = [(k.name, sorted((n, repr(x)) for n, x in (k.statistics or {}).items())) for k in c2.checks]
    out.append(("checks", z3.BoolVal(s1 == s2) if v.sym else s1 == s2))
    out.append(("dtype", z3.BoolVal(str(c1.dtype) == str(c2.dtype)) if v.sym else str(c1.dtype) == str(c2.dtype)))
    return out


def _mk_tschema(v):
    a = pa.Column(float, Check.ge(v.int("lo")), nullable=v.bool("a_null"), unique=v.bool("a_uni"), coerce=v.bool("a_co"), required=v.bool("a_req"),
                  drop_invalid_rows=v.bool("a_dir"), report_duplicates=v.choice("a_rd", ["all", "exclude_first"]), default=v.choice("a_def", [None, 7]),
                  title="ta", description="da")
    b = pa.Column(int, Check.isin([1, 2]), nullable=v.bool("b_null"), title="tb")
    return pa.DataFrameSchema({"a": a, "b": b}, strict=v.choice("strict", [False, True, "filter"]), name="s", ordered=v.bool("ordered"),
                              unique_column_names=v.bool("ucn"), title="ts", description="ds")


T_OPS = {
    "update_column(b)": (lambda S: S.update_column("b", nullable=True), ["a"], {}),
    "update_columns(b)": (lambda S: S.update_columns({"b": {"nullable": True}}), ["a"], {}),
    "rename(b->z)": (lambda S: S.rename_columns({"b": "z"}), ["a"], {"b": "z"}),
    "select([a,b])": (lambda S: S.select_columns(["a", "b"]), ["a", "b"], {}),
    "select([b,a])": (lambda S: S.select_columns(["b", "a"]), ["a", "b"], {}),
    "add(c)": (lambda S: S.add_columns({"c": pa.Column(int)}), ["a", "b"], {}),
    "add(c<-named)": (lambda S: S.add_columns({"c": pa.Column(int, name="q"), "d": S.columns["b"]}), ["a", "b"], {}),  # columns that already carry a name
    "remove(b)": (lambda S: S.remove_columns(["b"]), ["a"], {}),
    "set_index(b)": (lambda S: S.set_index(["b"]), ["a"], {}),
    # a request to clear a property (None is a legal value of these keywords) and requests for falsy values
    "update_column(b,checks=None)": (lambda S: S.update_column("b", checks=None), ["a"], {}),
    "update_column(b,title=None)": (lambda S: S.update_column("b", title=None), ["a"], {}),
    "update_column(a,default=None)": (lambda S: S.update_column("a", default=None), ["b"], {}),
    "update_columns(b,checks=None)": (lambda S: S.update_columns({"b": {"checks": None}}), ["a"], {}),
    "update_column(a,nullable=False)": (lambda S: S.update_column("a", nullable=False, unique=False, coerce=False, required=False), ["b"], {}),
    "update_columns(a,b)": (lambda S: S.update_columns({"a": {"nullable": True}, "b": {"unique": True}}), [], {}),
    "set_index([b,a])": (lambda S: S.set_index(["b", "a"]), [], {}),
    "set_index([a,b])": (lambda S: S.set_index(["a", "b"]), [], {}),
}
_SHARED = {}


def _shared_col():
    _SHARED["c"] = pa.Column(int, Check.isin([1, 2]))
    return _SHARED["c"]
# what the touched properties must be afterwards: (column, attribute) -> value
T_EXPECT = {
    "update_column(b)": {("b", "nullable"): True}, "update_columns(b)": {("b", "nullable"): True},
    "update_column(b,checks=None)": {("b", "checks"): []}, "update_column(b,title=None)": {("b", "title"): None},
    "update_column(a,default=None)": {("a", "default"): None}, "update_columns(b,checks=None)": {("b", "checks"): []},
    "update_column(a,nullable=False)": {("a", "nullable"): False, ("a", "unique"): False, ("a", "coerce"): False, ("a", "required"): False},
    "update_columns(a,b)": {("a", "nullable"): True, ("b", "unique"): True},
}
T_LAWS = {
    # the caller's Column object is used twice (two keys in one call / two successive calls): every schema keeps its own columns
    "add_same_column_two_keys": lambda S: (lambda c: S.add_columns({"x": c, "y": c}).remove_columns(["x", "y"]))(_shared_col()),
    "add_same_column_two_calls": lambda S: (lambda c: S.add_columns({"x": c}).add_columns({"y": c}).remove_columns(["x", "y"]))(_shared_col()),
    "rename_back": lambda S: S.rename_columns({"a": "z"}).rename_columns({"z": "a"}),
    "remove_after_add": lambda S: S.add_columns({"n": pa.Column(int)}).remove_columns(["n"]),
    "select_all": lambda S: S.select_columns(["a", "b"]),
    "reset_after_set": lambda S: S.set_index(["b"]).reset_index(),
    "reset_after_set(a)": lambda S: S.select_columns(["b", "a"]).set_index(["a"]).reset_index(),
    "update_identity": lambda S: S.update_column("b", title="tb"),
    "update_columns_identity": lambda S: S.update_columns({"b": {"title": "tb"}}),
}
T_INVALID = {
    "remove_missing": lambda S: S.remove_columns(["nope"]),
    "update_missing": lambda S: S.update_column("nope", nullable=True),
    "update_name": lambda S: S.update_column("a", name="zz"),
    "update_columns_unknown_empty": lambda S: S.update_columns({"nope": {}}),
    "update_columns_unknown_among_valid": lambda S: S.update_columns({"a": {"nullable": True}, "nope": {}}),
    "update_columns_unknown": lambda S: S.update_columns({"nope": {"nullable": True}}),
    "remove_existing_and_missing": lambda S: S.remove_columns(["a", "nope"]),
    "rename_missing": lambda S: S.rename_columns({"nope": "x"}),
    "rename_clash": lambda S: S.rename_columns({"a": "b"}),
    "select_missing": lambda S: S.select_columns(["a", "nope"]),
    "set_index_missing": lambda S: S.set_index(["nope"]),
    "reset_index_none": lambda S: S.reset_index(),
}
SCHEMA_LEVEL = ["strict", "name", "ordered", "unique_column_names", "title", "description", "coerce", "add_missing_columns", "drop_invalid_rows"]


def transform_case(v, group, name):
    S = _mk_tschema(v)
    fp0 = fingerprint(S)
    asserts, facts = [], dict(group=group, name=name)
    if group == "op":
        op, keep, renamed = T_OPS[name]
        S2 = op(S)
        for col in keep:
            for attr, t in _col_same(v, S.columns[col], S2.columns[col]):
                asserts.append((f"transform/untouched/{attr}", v.holds(t)))
        for attr in SCHEMA_LEVEL:
            asserts.append((f"transform/untouched_schema/{attr}", v.holds(_attr_eq(v, getattr(S, attr, None), getattr(S2, attr, None)))))
        asserts.append(("transform/new_object", v.holds(S2 is not S)))
        asserts.append(("transform/receiver_unchanged", v.holds(fingerprint(S) == fp0)))
        if name.startswith("select(["):  # like df[columns]: the result lists the columns in the requested order
            asserts.append(("transform/selected_order", v.holds(list(S2.columns) == name[len("select(["):-2].split(","))))
        if name.startswith("add("):  # every column of the result is named by the key it is stored under
            asserts.append(("transform/columns_named_by_key", v.holds(all(c.name == k for k, c in S2.columns.items()))))
        if name.startswith("set_index(["):
            want_levels = name[len("set_index(["):-2].split(",")
            asserts.append(("transform/index_level_order", v.holds([i.name for i in S2.index.indexes] == want_levels)))
        for (col, attr), want in T_EXPECT.get(name, {}).items():
            got = getattr(S2.columns[col], attr)
            asserts.append((f"transform/requested/{col}.{attr}", v.holds(_attr_eq(v, got, want) if not isinstance(want, list) else (list(got or []) == want))))
        asserts.append(("transform/column_order", v.holds([renamed.get(c, c) for c in S.columns if renamed.get(c, c) in S2.columns]
                                                          == [c for c in S2.columns if c in [renamed.get(x, x) for x in S.columns]]
                                                          or name.startswith("select("))))
    elif group == "law":
        S2 = T_LAWS[name](S)
        if name.startswith("add_same_column"):
            c = _SHARED["c"]
            if name.endswith("two_calls"):
                S1 = S.add_columns({"x": c})
                fp1 = fingerprint(S1)
                S12 = S1.add_columns({"y": c})
                asserts.append(("transform/receiver_unchanged_by_second_add", v.holds(fingerprint(S1) == fp1)))
            else:
                S12 = S.add_columns({"x": c, "y": c})
            asserts.append(("transform/added_columns_named_by_key", v.holds(S12.columns["x"].name == "x" and S12.columns["y"].name == "y")))
        eq = (S2 == S)
        asserts.append(("transform/law_equal", v.holds(bool(eq))))
        diffs = []
        for col in ("a", "b"):
            if col in S2.columns:
                for attr, t in _col_same(v, S.columns[col], S2.columns[col]):
                    asserts.append((f"transform/law_attr/{col}.{attr}", v.holds(t)))
            else:
                asserts.append((f"transform/law_attr/{col}.present", v.holds(False)))
        asserts.append(("transform/law_column_order", v.holds(list(S2.columns) == list(S.columns) or name == "reset_after_set(a)")))
        asserts.append(("transform/receiver_unchanged", v.holds(fingerprint(S) == fp0)))
    elif group == "invalid":
        import pandera.errors as E

        try:
            T_INVALID[name](S)
            kind = "returned"
        except (E.SchemaInitError, ValueError) as exc:
            kind = type(exc).__name__
        except Exception as exc:  # noqa: BLE001
            kind = "leak:" + type(exc).__name__
        facts["kind"] = kind
        asserts.append(("transform/invalid_raises", v.holds(kind in ("SchemaInitError", "ValueError"))))
        asserts.append(("transform/receiver_unchanged", v.holds(fingerprint(S) == fp0)))
    return dict(obs=None, asserts=asserts, facts=facts)


def transform_mirror_case(v, name, N):
    """accept(S, D) => accept(op(S), op(D)) with op(D) built by the harness"""
    lo = v.int("lo")
    S = pa.DataFrameSchema({"a": pa.Column(float, Check.ge(lo), nullable=v.bool("a_null"), unique=v.bool("a_uni")),
                            "b": pa.Column(int, Check.isin([1, 2, 3]), unique=v.bool("b_uni"))}, strict=v.choice("strict", [False, True]))
    df = v.frame([("a", "float"), ("b", "int")], N, labels="l", distinct_labels=True)
    o1 = H.outcome(lambda: S.validate(df))
    if name == "rename(b->z)":
        S2, df2 = S.rename_columns({"b": "z"}), _rename(df, {"b": "z"})
    elif name == "remove(b)":
        S2, df2 = S.remove_columns(["b"]), _drop(df, ["b"])
    elif name == "select([b])":
        S2, df2 = S.select_columns(["b"]), _drop(df, ["a"])
    elif name == "add(c)":
        S2 = S.add_columns({"c": pa.Column(int, Check.ge(0))})
        df2 = v.frame([("a", "float"), ("b", "int"), ("c", "int", False, [0, 1, 2, 3, 4])], N, labels="l", distinct_labels=True)
    elif name == "update(b nullable)":
        S2, df2 = S.update_column("b", nullable=True), df
    elif name == "set_index(b)":
        S2, df2 = S.set_index(["b"]), _set_index(v, df, "b", N)
    else:
        raise KeyError(name)
    o2 = H.outcome(lambda: S2.validate(df2))
    asserts = [("transform/mirror", v.holds((o1["kind"] != "accept") or (o2["kind"] == "accept"))),
               ("transform/mirror_channel", v.holds(channel_ok(o1) and channel_ok(o2)))]
    return dict(obs=o2, asserts=asserts, facts=dict(before=o1["kind"], after=o2["kind"], reason=o2.get("reason")))


def _rename(df, m):
    if isinstance(df, symframe.DataFrame):
        return symframe.DataFrame([(m.get(k, k), c) for k, c in df._cols], present=df.present, index=df.index.copy())
    return df.rename(columns=m)


def _drop(df, cols):
    if isinstance(df, symframe.DataFrame):
        return symframe.DataFrame([(k, c) for k, c in df._cols if k not in cols], present=df.present, index=df.index.copy())
    return df.drop(columns=cols)


def _set_index(v, df, col, N):
    if isinstance(df, symframe.DataFrame):
        c = df._get(col)
        idx = symframe.Index(c.vals, df.present, name=col, dtype=c.dtype)
        return symframe.DataFrame([(k, x) for k, x in df._cols if k != col], present=df.present, index=idx)
    return df.set_index(col)


# ------------------------------------------------------------------ DataFrameModel means its DataFrameSchema (C16)
def _schemas_equal(v, s1, s2):
    """structural equality up to check-function identity (fingerprints print symbolic attributes as their terms)"""
    return fingerprint(s1) == fingerprint(s2)


def model_case(v, shape, N):
    lo, hi = v.int("lo"), v.int("hi")
    nullable, unique, coerce = v.bool("nullable"), v.bool("unique"), v.bool("coerce")
    strict = strict_v = v.choice("strict", [False, True, "filter"])
    ordered = ordered_v = v.bool("ordered")
    asserts, facts = [], dict(shape=shape)
    extra_checks = []
    if shape == "single":
        class M(pa.DataFrameModel):
            a: float = pa.Field(ge=lo, nullable=nullable, unique=unique, coerce=coerce)
            b: int = pa.Field(isin=[1, 2, 3])

            class Config:
                strict = strict_v
                ordered = ordered_v
        spec = lambda: pa.DataFrameSchema({"a": pa.Column(float, Check.ge(lo), nullable=nullable, unique=unique, coerce=coerce),  # noqa: E731
                                           "b": pa.Column(int, Check.isin([1, 2, 3]))}, strict=strict, ordered=ordered)
        arr = [("a", "float"), ("b", "int")]
        models = [M]
    elif shape in ("override_field", "add_field", "three_level"):
        class Base(pa.DataFrameModel):
            a: float = pa.Field(ge=lo, nullable=nullable)
            b: int = pa.Field(isin=[1, 2, 3])

        if shape == "override_field":
            class M(Base):
                a: float = pa.Field(le=hi, unique=unique)
            spec = lambda: pa.DataFrameSchema({"a": pa.Column(float, Check.le(hi), unique=unique), "b": pa.Column(int, Check.isin([1, 2, 3]))})  # noqa: E731
            arr = [("a", "float"), ("b", "int")]
        elif shape == "add_field":
            class M(Base):
                c: float = pa.Field(le=hi, nullable=True)
            spec = lambda: pa.DataFrameSchema({"a": pa.Column(float, Check.ge(lo), nullable=nullable), "b": pa.Column(int, Check.isin([1, 2, 3])),  # noqa: E731
                                               "c": pa.Column(float, Check.le(hi), nullable=True)})
            arr = [("a", "float"), ("b", "int"), ("c", "float")]
        else:
            class Mid(Base):
                c: float = pa.Field(le=hi, nullable=True)

            class M(Mid):
                a: float = pa.Field(gt=lo, nullable=nullable)
            spec = lambda: pa.DataFrameSchema({"a": pa.Column(float, Check.gt(lo), nullable=nullable), "b": pa.Column(int, Check.isin([1, 2, 3])),  # noqa: E731
                                               "c": pa.Column(float, Check.le(hi), nullable=True)})
            arr = [("a", "float"), ("b", "int"), ("c", "float")]
        base_fp = fingerprint(Base.to_schema())
        base_spec = pa.DataFrameSchema({"a": pa.Column(float, Check.ge(lo), nullable=nullable), "b": pa.Column(int, Check.isin([1, 2, 3]))})
        models = [M]
        asserts.append(("model/parent_unchanged_by_subclass", v.holds(fingerprint(Base.to_schema()) == base_fp)))
        asserts.append(("model/parent_schema", v.holds(_fp_cols(Base.to_schema()) == _fp_cols(base_spec))))
    elif shape == "optional_alias":
        class M(pa.DataFrameModel):
            a: float = pa.Field(ge=lo, nullable=nullable, alias="a1")
            b: Opt[int] = pa.Field(isin=[1, 2, 3])
        spec = lambda: pa.DataFrameSchema({"a1": pa.Column(float, Check.ge(lo), nullable=nullable), "b": pa.Column(int, Check.isin([1, 2, 3]), required=False)})  # noqa: E731
        arr = [("a1", "float")] + ([("b", "int")] if v.choice("has_b", [True, False]) else [])
        models = [M]
    elif shape == "check_methods":
        class Base(pa.DataFrameModel):
            a: float = pa.Field(nullable=nullable)
            b: int

            @pa.check("a")
            def a_big(cls, s):  # noqa: N805
                return s >= lo

            @pa.dataframe_check
            def wide(cls, d):  # noqa: N805
                return d["b"] <= hi

        class M(Base):
            @pa.check("a")
            def a_big(cls, s):  # noqa: N805  (overrides the parent's check of the same name)
                return s > lo

        spec = lambda: pa.DataFrameSchema({"a": pa.Column(float, Check(lambda s: s > lo), nullable=nullable), "b": pa.Column(int)},  # noqa: E731
                                          checks=Check(lambda d: d["b"] <= hi))
        arr = [("a", "float"), ("b", "int")]
        models = [M]
        pspec = pa.DataFrameSchema({"a": pa.Column(float, Check(lambda s: s >= lo), nullable=nullable), "b": pa.Column(int)}, checks=Check(lambda d: d["b"] <= hi))
        extra_checks.append((Base, pspec))
    elif shape == "inherited_cls_check":
        # a check method that is inherited (not redefined) and whose result depends on the class it runs for; the solver picks which
        # class of the hierarchy is compiled first
        class Base(pa.DataFrameModel):
            a: float = pa.Field(nullable=nullable)
            b: int
            _limit = lo

            @pa.check("a")
            def within(cls, s):  # noqa: N805
                return s >= cls._limit

            @pa.dataframe_check
            def wide(cls, d):  # noqa: N805
                return d["b"] <= cls._limit

        class M(Base):
            _limit = hi

        if v.choice("order", ["parent_first", "child_first"]) == "parent_first":
            Base.to_schema(), M.to_schema()
        else:
            M.to_schema(), Base.to_schema()
        spec = lambda: pa.DataFrameSchema({"a": pa.Column(float, Check(lambda s: s >= hi), nullable=nullable), "b": pa.Column(int)},  # noqa: E731
                                          checks=Check(lambda d: d["b"] <= hi))
        arr = [("a", "float"), ("b", "int")]
        models = [M]
        pspec = pa.DataFrameSchema({"a": pa.Column(float, Check(lambda s: s >= lo), nullable=nullable), "b": pa.Column(int)}, checks=Check(lambda d: d["b"] <= lo))
        extra_checks.append((Base, pspec))
    elif shape == "reannotate":
        # a subclass re-annotates an inherited field WITHOUT a Field(...): the parent's options do not carry over
        class Base(pa.DataFrameModel):
            a: float = pa.Field(ge=lo, nullable=nullable, unique=unique)
            b: int = pa.Field(isin=[1, 2, 3])

        class M(Base):
            a: float
        spec = lambda: pa.DataFrameSchema({"a": pa.Column(float), "b": pa.Column(int, Check.isin([1, 2, 3]))})  # noqa: E731
        arr = [("a", "float"), ("b", "int")]
        models = [M]
        pspec = pa.DataFrameSchema({"a": pa.Column(float, Check.ge(lo), nullable=nullable, unique=unique), "b": pa.Column(int, Check.isin([1, 2, 3]))})
        extra_checks.append((Base, pspec))
    elif shape == "field_check_options":
        # options of the checks created from Field keywords (ignore_na / raise_warning) reach the checks
        ina, rw = v.bool("f_ina"), v.bool("f_rw")

        class M(pa.DataFrameModel):
            a: float = pa.Field(ge=lo, nullable=True, ignore_na=ina)
            b: int = pa.Field(isin=[1, 2, 3], raise_warning=rw)
        spec = lambda: pa.DataFrameSchema({"a": pa.Column(float, Check.ge(lo, ignore_na=ina), nullable=True),  # noqa: E731
                                           "b": pa.Column(int, Check.isin([1, 2, 3], raise_warning=rw))})
        arr = [("a", "float"), ("b", "int")]
        models = [M]
    elif shape == "parser_methods":
        # @parser methods (field level, inherited) are applied like the Parser objects of the object API, before the checks
        from pandera import Parser

        class Base(pa.DataFrameModel):
            a: float = pa.Field(ge=lo, nullable=nullable)
            b: int

            @pa.parser("a")
            def fill(cls, s):  # noqa: N805
                return s.fillna(0.5)

        class M(Base):
            b: int = pa.Field(isin=[1, 2, 3])

        spec = lambda: pa.DataFrameSchema({"a": pa.Column(float, Check.ge(lo), nullable=nullable, parsers=Parser(lambda s: s.fillna(0.5))),  # noqa: E731
                                           "b": pa.Column(int, Check.isin([1, 2, 3]))})
        arr = [("a", "float"), ("b", "int")]
        models = [M]
    elif shape == "diamond":
        # D(B, C) with B and C deriving from A; C overrides a field of A, B (listed first) leaves it alone: the MRO (D, B, C, A) picks C's
        class A0(pa.DataFrameModel):
            a: float = pa.Field(ge=lo, nullable=nullable)
            b: int = pa.Field(isin=[1, 2, 3])

        class B0(A0):
            c: float = pa.Field(nullable=True)

        class C0(A0):
            a: float = pa.Field(le=hi, unique=unique)

        class M(B0, C0):
            pass

        spec = lambda: pa.DataFrameSchema({"a": pa.Column(float, Check.le(hi), unique=unique), "b": pa.Column(int, Check.isin([1, 2, 3])),  # noqa: E731
                                           "c": pa.Column(float, nullable=True)})
        arr = [("a", "float"), ("b", "int"), ("c", "float")]
        models = [M]
    elif shape == "regex_check":
        # a @check registered with regex=True attaches to the fields whose names MATCH the pattern (re.match: from the start of the name)
        class M(pa.DataFrameModel):
            a1: float = pa.Field(nullable=nullable)
            ba1: float = pa.Field(nullable=True)
            b: int = pa.Field(isin=[1, 2, 3])

            @pa.check("a[0-9]", regex=True)
            def at_least(cls, s):  # noqa: N805
                return s >= lo

        spec = lambda: pa.DataFrameSchema({"a1": pa.Column(float, Check(lambda s: s >= lo), nullable=nullable), "ba1": pa.Column(float, nullable=True),  # noqa: E731
                                           "b": pa.Column(int, Check.isin([1, 2, 3]))})
        arr = [("a1", "float"), ("ba1", "float"), ("b", "int")]
        models = [M]
        asserts.append(("model/number_of_checks", v.holds([len(c.checks) for c in M.to_schema().columns.values()] == [1, 0, 1])))
    elif shape == "two_parsers":
        # two @parser methods on the same field, one inherited and one added by the subclass: both are applied, in order
        from pandera import Parser

        class Base(pa.DataFrameModel):
            a: float = pa.Field(ge=lo, nullable=nullable)
            b: int

            @pa.parser("a")
            def fill(cls, s):  # noqa: N805
                return s.fillna(0.5)

        class M(Base):
            @pa.parser("a")
            def fill_again(cls, s):  # noqa: N805  (a second parser of the same field)
                return s.fillna(1.5)

            @pa.parser("b")
            def keep(cls, s):  # noqa: N805
                return s

        spec = lambda: pa.DataFrameSchema({"a": pa.Column(float, Check.ge(lo), nullable=nullable, parsers=[Parser(lambda s: s.fillna(1.5)), Parser(lambda s: s.fillna(0.5))]),  # noqa: E731  (collection follows the MRO: the subclass parser runs first)
                                           "b": pa.Column(int, parsers=Parser(lambda s: s))})
        arr = [("a", "float"), ("b", "int")]
        models = [M]
        asserts.append(("model/number_of_parsers", v.holds(len(M.to_schema().columns["a"].parsers) == 2 and len(Base.to_schema().columns["a"].parsers) == 1)))
    elif shape == "falsy_alias":
        # aliases that are falsy but not None: the integer label 0 and the empty string
        class M(pa.DataFrameModel):
            a: float = pa.Field(ge=lo, nullable=nullable, alias=0)
            b: int = pa.Field(isin=[1, 2, 3], alias="")

            class Config:
                strict = True
        spec = lambda: pa.DataFrameSchema({0: pa.Column(float, Check.ge(lo), nullable=nullable), "": pa.Column(int, Check.isin([1, 2, 3]))}, strict=True)  # noqa: E731
        arr = [(0, "float"), ("", "int")]
        models = [M]
    elif shape == "config_extras":
        class M(pa.DataFrameModel):
            a: float = pa.Field(nullable=nullable)
            b: int = pa.Field(ge=lo)

            class Config:
                coerce = False
                unique = ["a", "b"]
                add_missing_columns = False
        spec = lambda: pa.DataFrameSchema({"a": pa.Column(float, nullable=nullable), "b": pa.Column(int, Check.ge(lo))}, unique=["a", "b"])  # noqa: E731
        arr = [("a", "float"), ("b", "int")]
        models = [M]
    else:
        raise KeyError(shape)
    df = v.frame(arr, N, labels="l", distinct_labels=True)
    M = models[0]
    s1 = M.to_schema()
    s1b = M.to_schema()
    asserts.append(("model/to_schema_stable", v.holds(fingerprint(s1) == fingerprint(s1b) and bool(s1 == s1b))))
    if shape == "single":
        # the other class-level entry points that hand out or use the compiled schema leave it as it is
        fp_cached = fingerprint(M.to_schema())
        for use in (lambda: M.empty(), lambda: M.to_yaml(), lambda: M.strategy(size=1)):
            try:
                use()
            except Exception:  # noqa: BLE001 - an entry point that does not apply to this model still must not change the schema
                pass
        asserts.append(("model/to_schema_stable_after_class_level_use", v.holds(fingerprint(M.to_schema()) == fp_cached)))
    S = spec()
    if shape not in ("check_methods", "inherited_cls_check", "parser_methods", "two_parsers", "regex_check"):
        asserts.append(("model/schema_equals_spec", v.holds(_fp_cols(s1) == _fp_cols(S))))
        facts["fp_model"], facts["fp_spec"] = None, None
    om = H.outcome(lambda: M.validate(df))
    os_ = H.outcome(lambda: S.validate(df))
    asserts.append(("model/verdict_equals_schema", v.holds(om["kind"] == os_["kind"] and om.get("reason") == os_.get("reason"))))
    if om["kind"] == "accept" and os_["kind"] == "accept" and is_frame(om["out"]) and is_frame(os_["out"]):
        # ... and returns the same (parsed) object
        asserts.append(("model/output_equals_schema_output", H.equal_to_snapshot(v, om["out"], H.snapshot(os_["out"]))))
    for P, pspec in extra_checks:
        op, osx = H.outcome(lambda: P.validate(df)), H.outcome(lambda: pspec.validate(df))
        asserts.append(("model/parent_verdict", v.holds(op["kind"] == osx["kind"])))
    facts.update(model=om["kind"], schema=os_["kind"], mreason=om.get("reason"), sreason=os_.get("reason"))
    return dict(obs=om, asserts=asserts, facts=facts)


def _rebuild(M):
    """re-run the model's schema collection after Config attributes were assigned from provider values"""
    try:
        M.__schema__ = None
        from pandera.api.dataframe import model as _m

        cache = getattr(_m, "MODEL_CACHE", None)
        if cache is not None:
            for k in [k for k in cache if k[0] is M]:
                del cache[k]
        M.__config__, M.__extras__ = M._collect_config_and_extras()
    except Exception:  # noqa: BLE001
        pass
    return M


def _fp_cols(schema):
    """fingerprint without names of check functions and without the schema name/title (models name the schema after the class)"""
    fp = fingerprint(schema)
    attrs = tuple((a, x) for a, x in fp[2] if a not in ("name", "title", "description"))
    return (fp[0], fp[1], attrs, fp[3], fp[4])


# ------------------------------------------------------------------ decorators (C17)
def decorator_case(v, shape, N):
    from pandera import check_input, check_io, check_output, check_types

    df = v.frame([("a", "int", False)], N, labels="l", distinct_labels=True)
    lo = v.int("lo")
    schema = pa.DataFrameSchema({"a": pa.Column(int, Check.ge(lo))})
    lazy = v.choice("lazy", [False, True])
    head = v.choice("head", [None, 1])
    opts = dict(lazy=lazy, head=head)
    if shape.endswith("-parse"):
        # a schema whose validation returns a NEW object whatever `inplace` says (a missing column is added), with the inplace
        # option chosen by the solver: the body must receive what validate returns
        schema = pa.DataFrameSchema({"a": pa.Column(int, Check.ge(lo)), "b": pa.Column(int, default=1)}, add_missing_columns=True)
        opts = dict(lazy=lazy, inplace=v.choice("inplace", [False, True]))
        shape = shape[:-len("-parse")]
    elif shape.endswith("-drop"):
        schema = pa.DataFrameSchema({"a": pa.Column(int, Check.ge(lo))}, drop_invalid_rows=True)
        opts = dict(lazy=True, inplace=v.choice("inplace", [False, True]))
        shape = shape[:-len("-drop")]
    elif shape.endswith("-nonearg"):
        df = None  # not a dataframe at all: nothing validates it, so no body may run with it
        shape = shape[:-len("-nonearg")]
    if shape.startswith("types") or shape in ("none-pos-opts", "io-opts"):
        # every validation option the decorators accept: tail and sample (contract stub: any n distinct rows, the same rows for the
        # same (n, random_state)) in addition
        opts["tail"] = v.choice("tail", [None, 1])
        if N >= 1:
            ns = v.choice("sample", [None, 1])
            if ns is not None:
                opts.update(sample=ns, random_state=7)
        if not v.sym and df is not None:
            df = H.with_sample_stub(df, v.vals, N)
    ran, got = [], []
    body_raises = v.choice("body_raises", [False, True]) if shape in ("none-pos", "io", "output") else False

    class BodyError(Exception):
        pass

    def body(x, y=0):
        ran.append(1)
        got.append(x)
        if body_raises:
            raise BodyError("body")
        return x

    class K:
        def m(self, x, y=0):
            ran.append(1)
            got.append(x)
            return x

        def m1(self, x):
            ran.append(1)
            got.append(x)
            return x

        @classmethod
        def c(cls, x):
            ran.append(1)
            got.append(x)
            return x

    def body_kwonly(p, x, *, flag=False):
        ran.append(1)
        got.append(x)
        others["p"], others["flag"] = p, flag
        return x

    def body_catchall(p, x, **extra):
        ran.append(1)
        got.append(x)
        others["p"], others["extra"] = p, extra
        return x

    others = {}

    def body_varargs(x, *more):
        ran.append(1)
        got.append(x)
        others["more"] = more
        return x

    out_kind = "frame"
    if shape in ("none-pos", "none-pos-opts"):
        f = check_input(schema, **opts)(body)
        call = lambda: f(df)  # noqa: E731
    elif shape == "name-pos-kw-default":  # the frame positionally, a defaulted parameter by keyword
        f = check_input(schema, "x", **opts)(body)
        call = lambda: f(df, y=1)  # noqa: E731
    elif shape == "int-pos-kw-default":
        f = check_input(schema, 0, **opts)(body)
        call = lambda: f(df, y=1)  # noqa: E731
    elif shape == "none-pos-kw-default":
        f = check_input(schema, **opts)(body)
        call = lambda: f(df, y=1)  # noqa: E731
    elif shape == "name-pos2-kwonly":
        f = check_input(schema, "x", **opts)(body_kwonly)
        call = lambda: f(0, df, flag=True)  # noqa: E731
    elif shape == "int-pos2-kwonly":
        f = check_input(schema, 1, **opts)(body_kwonly)
        call = lambda: f(0, df, flag=True)  # noqa: E731
    elif shape == "name-pos2-catchall":
        f = check_input(schema, "x", **opts)(body_catchall)
        call = lambda: f(0, df, k=1)  # noqa: E731
    elif shape == "name-pos-varargs":
        f = check_input(schema, "x", **opts)(body_varargs)
        call = lambda: f(df, 1, 2)  # noqa: E731
    elif shape == "io-kw-default":
        f = check_io(x=schema, out=schema, **opts)(body)
        call = lambda: f(df, y=1)  # noqa: E731
    elif shape == "io-opts":
        f = check_io(x=schema, out=schema, **opts)(body)
        call = lambda: f(df)  # noqa: E731
    elif shape in ("types-pos", "types-kw", "types-bare"):
        from pandera.typing import DataFrame as _DF

        class M(pa.DataFrameModel):
            a: int = pa.Field(ge=lo)

        def body_t(x, y=0):
            ran.append(1)
            got.append(x)
            return x

        body_t.__annotations__ = {"x": _DF[M], "y": int}  # real objects (this module postpones the evaluation of annotations)

        f = check_types(body_t) if shape == "types-bare" else check_types(**opts)(body_t)
        if shape == "types-bare":
            opts = {}
        call = (lambda: f(x=df)) if shape == "types-kw" else (lambda: f(df))  # noqa: E731
    elif shape in ("types-kwargs", "types-varargs1", "types-varargs2"):
        # frames handed over through an annotated **kwargs / *args parameter are designated inputs like any other
        from pandera.typing import DataFrame as _DF

        class M(pa.DataFrameModel):  # noqa: F811
            a: int = pa.Field(ge=lo)

        if shape == "types-kwargs":
            def body_b(**frames):
                ran.append(1)
                got.append(frames["x"])
                return frames["x"]
        else:
            def body_b(*frames):
                ran.append(1)
                got.append(frames[0])
                others["n"] = len(frames)
                return frames[0]

        body_b.__annotations__ = {"frames": _DF[M]}
        f = check_types(**opts)(body_b)
        call = {"types-kwargs": lambda: f(x=df), "types-varargs1": lambda: f(df), "types-varargs2": lambda: f(df, df)}[shape]
    elif shape == "none-kw":
        f = check_input(schema, **opts)(body)
        call = lambda: f(x=df)  # noqa: E731
    elif shape == "name-pos":
        f = check_input(schema, "x", **opts)(body)
        call = lambda: f(df)  # noqa: E731
    elif shape == "name-kw":
        f = check_input(schema, "x", **opts)(body)
        call = lambda: f(x=df)  # noqa: E731
    elif shape == "int-pos":
        f = check_input(schema, 0, **opts)(body)
        call = lambda: f(df)  # noqa: E731
    elif shape in ("bound-none", "bound-name", "bound-int"):  # a bound method object is decorated (outside the class body)
        g = {"bound-none": (), "bound-name": ("x",), "bound-int": (0,)}[shape]
        f = check_input(schema, *g, **opts)(K().m1)
        call = lambda: f(df)  # noqa: E731
    elif shape == "method-none":
        K.m1 = check_input(schema, **opts)(K.m1)
        call = lambda: K().m1(df)  # noqa: E731
    elif shape == "method-name":
        K.m1 = check_input(schema, "x", **opts)(K.m1)
        call = lambda: K().m1(df)  # noqa: E731
    elif shape == "method-name-default":
        K.m = check_input(schema, "x", **opts)(K.m)
        call = lambda: K().m(df)  # noqa: E731
    elif shape == "method-name-kw":
        K.m = check_input(schema, "x", **opts)(K.m)
        call = lambda: K().m(x=df)  # noqa: E731
    elif shape == "method-int":
        K.m1 = check_input(schema, 0, **opts)(K.m1)
        call = lambda: K().m1(df)  # noqa: E731
    elif shape == "io":
        f = check_io(x=schema, out=schema, **opts)(body)
        call = lambda: f(df)  # noqa: E731
    elif shape == "output":
        f = check_output(schema, **opts)(body)
        call = lambda: f(df)  # noqa: E731
    elif shape == "output-tuple":
        def body2(x):
            ran.append(1)
            got.append(x)
            return (1, x)
        f = check_output(schema, 1, **opts)(body2)
        call = lambda: f(df)  # noqa: E731
        out_kind = "tuple"
    elif shape in ("output-tuple-coerce", "output-dict-coerce"):
        # the designated element is the caller's own frame and the schema changes data (int -> float): with the default
        # inplace=False neither the other elements nor the caller's frame may change
        schema = pa.DataFrameSchema({"a": pa.Column(float, Check.ge(lo), coerce=True)})
        opts = dict(lazy=lazy)

        def body_alias(x):
            ran.append(1)
            got.append(x)
            return (x, x) if shape == "output-tuple-coerce" else {"raw": x, "k": x}
        f = check_output(schema, 1 if shape == "output-tuple-coerce" else "k", **opts)(body_alias)
        call = lambda: f(df)  # noqa: E731
        out_kind = "tuple" if shape == "output-tuple-coerce" else "dict"
    elif shape == "output-tuple-neg":  # the same element designated from the end
        def body2n(x):
            ran.append(1)
            got.append(x)
            return (1, x)
        f = check_output(schema, -1, **opts)(body2n)
        call = lambda: f(df)  # noqa: E731
        out_kind = "tuple"
    elif shape == "output-dict":
        def body3(x):
            ran.append(1)
            got.append(x)
            return {"k": x}
        f = check_output(schema, "k", **opts)(body3)
        call = lambda: f(df)  # noqa: E731
        out_kind = "dict"
    else:
        raise KeyError(shape)
    snap = H.snapshot(df) if df is not None else None
    direct = H.outcome(lambda: schema.validate(df, **opts))
    if df is None:
        o = H.outcome(call)
        return dict(obs=None, asserts=[("decorator/gate", v.holds(not ran)), ("decorator/none_is_rejected", v.holds(o["kind"] != "accept"))],
                    facts=dict(shape=shape, body_ran=bool(ran), _direct=direct["kind"], _got=o["kind"]))

    def run():
        try:
            return call()
        except BodyError:
            return "BODY-RAISED"

    o = H.outcome(run)
    is_output = shape.startswith("output")
    asserts = []
    if not is_output:
        asserts.append(("decorator/gate", v.holds(bool(ran) == (direct["kind"] == "accept"))))
    else:
        asserts.append(("decorator/body_always_runs", v.holds(bool(ran))))
    body_raised = o["kind"] == "accept" and isinstance(o.get("out"), str) and o["out"] == "BODY-RAISED"
    if body_raises and (is_output or direct["kind"] == "accept"):
        # the undecorated function raises: the decorated one must raise the same exception
        asserts.append(("decorator/body_exception_propagates", v.holds(body_raised)))
        same_kind = True
    else:
        same_kind = (o["kind"] == direct["kind"]) and not body_raised
    asserts.append(("decorator/outcome_as_direct_validation", v.holds(same_kind)))
    asserts.append(("decorator/channel", v.holds(channel_ok(o))))
    if snap is not None and not opts.get("inplace") and not isinstance(opts.get("inplace"), SymBoolT):
        asserts.append(("decorator/input_unchanged", H.equal_to_snapshot(v, df, snap)))
    if o["kind"] == "accept" and direct["kind"] == "accept":
        res = o["out"]
        if not (isinstance(res, str) and res == "BODY-RAISED"):
            val = res[1] if out_kind == "tuple" else res["k"] if out_kind == "dict" else res
            dsnap = H.snapshot(direct["out"])
            asserts.append(("decorator/result_is_validated_object", H.equal_to_snapshot(v, val, dsnap)))
        if got and not is_output:
            asserts.append(("decorator/body_receives_validated", H.equal_to_snapshot(v, got[0], H.snapshot(direct["out"]))))
    if ran and others:
        # the arguments that are not designated reach the body exactly as the caller passed them
        want = {"types-varargs1": {"n": 1}, "types-varargs2": {"n": 2}, "name-pos-varargs": {"more": (1, 2)}, "name-pos2-kwonly": {"p": 0, "flag": True}, "int-pos2-kwonly": {"p": 0, "flag": True},
                "name-pos2-catchall": {"p": 0, "extra": {"k": 1}}}.get(shape)
        if want is not None:
            asserts.append(("decorator/other_arguments_unchanged", v.holds(others == want)))
    facts = dict(shape=shape, direct=direct["kind"], got=o["kind"], body_ran=bool(ran), lazy=lazy, head=head, msg=o.get("msg"))
    o2 = dict(o)
    if o2["kind"] == "accept" and not isinstance(o2.get("out"), (symframe.DataFrame, real_pd.DataFrame)):
        o2["out"] = None
    return dict(obs=o2 if o2.get("out") is not None or o2["kind"] != "accept" else None, asserts=asserts, facts=facts)


DECORATOR_SHAPES = ("none-pos", "none-kw", "name-pos", "name-kw", "int-pos", "method-none", "method-name", "method-name-default", "method-name-kw",
                    "method-int", "io", "output", "output-tuple", "output-dict",
                    "none-pos-opts", "io-opts", "name-pos-kw-default", "int-pos-kw-default", "none-pos-kw-default", "name-pos2-kwonly", "int-pos2-kwonly",
                    "name-pos2-catchall", "name-pos-varargs", "io-kw-default", "types-pos", "types-kw", "types-bare",
                    "name-pos-parse", "name-kw-parse", "int-pos-parse", "none-pos-parse", "io-parse", "method-name-parse", "name-pos-drop", "io-drop", "int-pos-drop",
                    "types-pos-nonearg", "types-kw-nonearg", "none-pos-nonearg", "name-pos-nonearg",
                    "bound-none", "bound-name", "bound-int", "types-kwargs", "types-varargs1", "types-varargs2", "output-tuple-neg", "output-parse", "output-tuple-parse", "output-tuple-neg-parse",
                    "output-dict-parse", "output-tuple-coerce", "output-dict-coerce")


# ------------------------------------------------------------------ histories of non-transforming operations (C05)
def _mk_hschema(variant, lo):
    if variant == "regex":
        return pa.DataFrameSchema({"^a[0-9]$": pa.Column(float, Check.ge(lo), regex=True, nullable=True),
                                   "b": pa.Column(int, Check.isin([1, 2, 3]))}, strict=True, name="S")
    if variant == "dtype":
        return pa.DataFrameSchema({"a1": pa.Column(float, Check.ge(lo), nullable=True)},
                                  dtype=float, coerce=True, index=pa.Index(int, Check.ge(0)), name="S")
    if variant == "plain":
        return pa.DataFrameSchema({"a1": pa.Column(float, Check.ge(lo), nullable=True, coerce=True), "b": pa.Column(int, Check.isin([1, 2, 3]), required=False)},
                                  unique=["a1", "b"], ordered=True, name="S")
    if variant == "groupby":
        def gfn(groups):
            out = True
            for k in sorted(groups):
                out = out & (groups[k] >= lo).all()
            return out
        return pa.DataFrameSchema({"a1": pa.Column(float, Check(gfn, groupby="k", groups=["x", "y"]), nullable=False), "k": pa.Column(str)}, name="S")
    if variant == "datetime_stats":
        # a date-time column whose check carries a LIST of timestamps: the serialisers and the statistics code have to convert each
        # element (the frame model has no date-time cells: histories of this variant validate frames that lack the column)
        import pandas as _pd

        return pa.DataFrameSchema({"t": pa.Column("datetime64[ns]", Check.isin([_pd.Timestamp("2020-01-01"), _pd.Timestamp("2021-06-01")])),
                                   "d": pa.Column("timedelta64[ns]", Check.isin([_pd.Timedelta(0), _pd.Timedelta(days=2)]), required=False),
                                   "b": pa.Column(int, Check.isin([1, 2, 3]))}, name="S")
    if variant == "mi_dupnames":
        return pa.MultiIndex([pa.Index(int, Check.ge(lo), name="id"), pa.Index(int, name="id")])
    raise KeyError(variant)


def _h_frame(v, variant, tag, N):
    kinds = {"regex": [("a1", "float"), ("b", "int")], "dtype": [("a1", "float"), ("b", "float", False)], "plain": [("a1", "float"), ("b", "int")]}[variant]
    return v.frame([(f"{c[0]}", *c[1:]) for c in kinds], N, labels=f"l{tag}_", distinct_labels=True) if False else _tagged_frame(v, kinds, N, tag)


def _tagged_frame(v, kinds, N, tag, variant=None):
    """a fresh symbolic frame per history step: variable names carry the step tag"""
    if variant == "mi_dupnames":  # a two-level MultiIndex whose levels carry the SAME name
        return v.mi_frame([(c[0] + tag + "_", c[1]) for c in kinds], N, levels=[("id", f"L{tag}_"), ("id", f"M{tag}_")])
    lab = v.labels(f"L{tag}_", N, True)
    data = []
    for c in kinds:
        kind = c[1]
        nullable = (kind in ("float", "str")) if len(c) < 3 else c[2]
        if len(c) > 3:
            vals, nulls = [symframe.lift_cell(x, kind) for x in list(c[3])[:N]], [z3.BoolVal(False)] * N
        else:
            vals, nulls = v.cells(f"{c[0]}{tag}_", kind, N, nullable)
        data.append((c[0], kind, vals, nulls))
    if v.sym:
        idx = symframe.Index(lab)
        return symframe.DataFrame([(k, symframe.Series(vals, nulls=nulls, dtype=H.DT[kind], index=idx.copy())) for k, kind, vals, nulls in data], index=idx)
    idx = real_pd.Index([v.vals.term(l) for l in lab], dtype="int64")
    return real_pd.DataFrame({k: real_pd.Series(v._conc_cells(vals, nulls, kind), dtype=H.DT[kind], index=idx) for k, kind, vals, nulls in data}, index=idx)


H_OPS = ["validate_eager", "validate_lazy", "coerce_dtype", "statistics", "to_yaml", "to_json", "to_script", "repr", "eq", "deepcopy", "strategy", "example",
         "transform_add", "transform_rename", "transform_update", "transform_set_index"]


def history_case(v, variant, k, N, ops=None, fixed=()):
    import copy as _copy

    ops = ops or H_OPS
    lo = 0
    S = _mk_hschema(variant, lo)
    ref = _mk_hschema(variant, lo)
    fp0 = fingerprint(S)
    asserts, trace = [], []
    for j in range(k):
        op = fixed[j] if j < len(fixed) else v.choice(f"op{j}", ops)
        trace.append(op)
        res = "ok"
        try:
            if op in ("validate_eager", "validate_lazy"):
                d = _tagged_frame(v, _hkinds(variant), N, f"h{j}", variant)
                o = H.outcome(lambda: S.validate(d, lazy=(op == "validate_lazy")))
                res = o["kind"]
            elif op == "coerce_dtype":
                d = _tagged_frame(v, _hkinds(variant), N, f"h{j}")
                o = H.outcome(lambda: S.coerce_dtype(d))
                res = o["kind"]
            elif op == "statistics":
                from pandera.schema_statistics import get_dataframe_schema_statistics

                get_dataframe_schema_statistics(S)
            elif op == "to_yaml":
                S.to_yaml()
            elif op == "to_json":
                S.to_json()
            elif op == "to_script":
                S.to_script()
            elif op == "repr":
                repr(S), str(S)
            elif op == "eq":
                S == ref, S == _copy.deepcopy(S)
            elif op == "deepcopy":
                _copy.deepcopy(S)
            elif op == "strategy":
                S.strategy(size=2)
            elif op == "example":
                # a real draw (the schema's attributes are concrete): building the strategy alone does not run its body
                import warnings as _w

                with _w.catch_warnings():
                    _w.simplefilter("ignore")
                    S.example(size=2)
            elif op == "transform_add":
                S.add_columns({"zz": pa.Column(int)})
            elif op == "transform_rename":
                S.rename_columns({"a1": "bb"} if variant != "regex" else {"b": "bb"})
            elif op == "transform_update":
                S.update_column("a1" if variant != "regex" else "b", nullable=True)
            elif op == "transform_set_index":
                S.set_index(["a1" if variant != "regex" else "b"])
        except Exception as exc:  # noqa: BLE001 - an operation that is not applicable to this schema still must not change it
            res = "raised:" + type(exc).__name__
        trace[-1] = f"{op}:{res}"
        asserts.append((f"history/fingerprint_after_{j + 1}", v.holds(fingerprint(S) == fp0)))
    probe = _tagged_frame(v, _hkinds(variant), N, "p", variant)
    o1 = H.outcome(lambda: S.validate(probe))
    o2 = H.outcome(lambda: ref.validate(probe))
    asserts.append(("history/verdict_as_fresh_schema", v.holds(o1["kind"] == o2["kind"] and o1.get("reason") == o2.get("reason"))))
    asserts.append(("history/equal_to_fresh_schema", v.holds(bool(S == ref))))
    return dict(obs=o1, asserts=asserts, facts=dict(trace=trace, probe=o1["kind"], fresh=o2["kind"]))


def _hkinds(variant):
    return {"regex": [("a1", "float"), ("b", "int")], "dtype": [("a1", "float")], "plain": [("a1", "float"), ("b", "int")],
            "groupby": [("a1", "float", False), ("k", "str", False, ["x", "y", "x", "y"])], "mi_dupnames": [("a1", "float")],
            "datetime_stats": [("b", "int")]}[variant]


# ------------------------------------------------------------------ serialisation round trip (C12)
class _Token(str):
    """what the stubbed codec hands back as 'the text': a str (the readers accept a document string), unique per dump, naming no
    existing file, carrying the dumped value"""
    _n = 0

    def __new__(cls, obj):
        _Token._n += 1
        t = str.__new__(cls, f"pverif-token-{_Token._n}.doc")
        t.obj = obj
        return t


def _to_plain(o, json_mode=False):
    from symx import SymInt as _SI, SymReal as _SR

    if isinstance(o, (type(None), bool, int, float, str, SymBoolT, _SI, _SR)):
        return o
    if isinstance(o, (list, tuple)):
        return [_to_plain(x, json_mode) for x in o]
    if isinstance(o, dict):
        return {(str(k) if json_mode and not isinstance(k, str) else k): _to_plain(x, json_mode) for k, x in o.items()}
    raise TypeError(f"cannot represent an object: {type(o)}")  # yaml RepresenterError / json TypeError


class _YamlStub:
    """contract stub: safe_load(safe_dump(x)) is the identity on the YAML value domain (tuples become lists) and
    dumping any other leaf raises"""

    @staticmethod
    def safe_dump(obj, stream=None, sort_keys=False):
        return _Token(_to_plain(obj))

    @staticmethod
    def safe_load(tok):
        import copy as _c

        if isinstance(tok, _Token):
            return _c.deepcopy(tok.obj)
        raise TypeError("not a token")


class _JsonStub:
    class decoder:
        JSONDecodeError = ValueError

    @staticmethod
    def dumps(obj, sort_keys=False, **kw):
        return _Token(_to_plain(obj, json_mode=True))

    @staticmethod
    def loads(tok):
        import copy as _c

        if isinstance(tok, _Token):
            return _c.deepcopy(tok.obj)
        raise ValueError("not a token")

    @staticmethod
    def load(fp=None):
        return _JsonStub.loads(fp)


def _plain_equal(v, a, b):
    """structural equality of two serialised dictionaries whose leaves may be symbolic"""
    from symx import SymInt as _SI, SymReal as _SR

    if isinstance(a, dict) and isinstance(b, dict):
        if list(a.keys()) != list(b.keys()):
            return z3.BoolVal(False)
        return zand(_plain_equal(v, a[k], b[k]) for k in a)
    if isinstance(a, (list, tuple)) and isinstance(b, (list, tuple)):
        if len(a) != len(b):
            return z3.BoolVal(False)
        return zand(_plain_equal(v, x, y) for x, y in zip(a, b))
    if isinstance(a, (SymBoolT, _SI, _SR)) or isinstance(b, (SymBoolT, _SI, _SR)):
        if isinstance(a, SymBoolT) != isinstance(b, SymBoolT) and (isinstance(a, (bool, SymBoolT)) != isinstance(b, (bool, SymBoolT))):
            return z3.BoolVal(False)
        r = (a == b)
        return r.z if isinstance(r, SymBoolT) else z3.BoolVal(bool(r))
    return z3.BoolVal(type(a) is type(b) and a == b)


def roundtrip_case(v, shape, fmt):
    import pandera.io.pandas_io as IO

    lo, hi = v.int("lo", -1000, 1000), v.int("hi", -1000, 1000)
    if v.sym:
        from symx import eng as _eng

        _eng().assume(z3.Int("lo") <= z3.Int("hi"))  # parse_checks refuses ge(lo) & le(hi) with lo > hi by design (documented ValueError)
    B = {k: v.bool(k) for k in ["nullable", "unique", "coerce", "required", "ordered", "ucn", "amc", "rw", "ina", "idx_unique", "idx_null", "s_coerce"]}
    nfc = v.choice("nfc_none", [None, 1])
    nfc = v.int("nfc", 0, 10) if nfc is not None else None
    strict = v.choice("strict", [False, True, "filter"])
    rd = v.choice("rd", ["all", "exclude_first", "exclude_last"])
    c1 = Check.ge(lo, raise_warning=B["rw"], ignore_na=B["ina"], n_failure_cases=nfc)
    cols = {"a": pa.Column(int, [c1, Check.le(hi)], nullable=B["nullable"], unique=B["unique"], coerce=B["coerce"], required=B["required"],
                           title="t", description="d")}
    kw = dict(index=pa.Index(int, unique=B["idx_unique"], nullable=B["idx_null"], name="i"))
    if shape == "two_same_kind":
        cols["a"] = pa.Column(int, [Check.ge(lo), Check.ge(hi)], nullable=B["nullable"])
    elif shape == "df_checks":
        kw["checks"] = [Check.ge(lo)]
    elif shape == "multiindex":
        kw["index"] = pa.MultiIndex([pa.Index(int, name="i0", unique=B["idx_unique"], coerce=v.bool("i0_coerce")),
                                     pa.Index(str, Check.isin(["x", "y"]), name="i1", nullable=B["idx_null"], coerce=v.bool("i1_coerce"))])
    elif shape == "index_flags":
        kw["index"] = pa.Index(int, Check.ge(lo), unique=B["idx_unique"], nullable=B["idx_null"], coerce=v.bool("i0_coerce"), name="i")
    elif shape == "regex":
        cols = {"^a[0-9]$": pa.Column(float, Check.in_range(lo, lo + 5, B["rw"], B["ina"]), regex=True, nullable=B["nullable"]), "b": pa.Column(str, Check.isin(["x", "y"]))}
    elif shape == "joint_unique":
        cols["b"] = pa.Column(float, Check.isin([1.5, 2.5]))
        kw["unique"] = ["a", "b"]
    elif shape == "no_index":
        kw = {}
    elif shape == "str_checks":
        cols = {"s": pa.Column(str, [Check.str_matches("^a[0-9]+$"), Check.str_length(1, 5), Check.str_startswith("a")], nullable=B["nullable"], unique=B["unique"])}
    elif shape == "datetime_range":
        # date-time and duration bounds are concrete (their text conversion is C code); the inclusion flags and the options travelling
        # next to them in the same statistics mapping are symbolic
        import pandas as _pd

        cols = {"t": pa.Column("datetime64[ns]", Check.in_range(_pd.Timestamp("2020-01-01"), _pd.Timestamp("2021-06-01 12:00"), B["rw"], B["ina"]), nullable=B["nullable"]),
                "d": pa.Column("timedelta64[ns]", [Check.in_range(_pd.Timedelta(0), _pd.Timedelta(days=2), B["ucn"], B["amc"]), Check.ge(_pd.Timedelta(0))], unique=B["unique"]),
                "a": cols["a"]}
        kw["index"] = pa.Index("datetime64[ns]", Check.le(_pd.Timestamp("2030-01-01")), name="i", unique=B["idx_unique"])
    elif shape != "base":
        raise KeyError(shape)
    try:
        S = pa.DataFrameSchema(cols, strict=strict, ordered=B["ordered"], unique_column_names=B["ucn"], add_missing_columns=B["amc"],
                               report_duplicates=rd, coerce=B["s_coerce"], title="T", description="D", name="n", **kw)
    except ValueError:
        return dict(obs=None, asserts=[], facts=dict(kind="ctor ValueError"))
    fp0 = fingerprint(S)
    to_, from_ = (IO.to_yaml, IO.from_yaml) if fmt == "yaml" else (IO.to_json, IO.from_json)
    saved = (IO.yaml, IO.json)
    facts = dict(shape=shape, fmt=fmt)
    asserts = []
    try:
        if v.sym:
            IO.yaml, IO.json = _YamlStub, _JsonStub
        try:
            text = to_(S)
            S2 = from_(text)
            text2 = to_(S2)
            eq = bool(S2 == S)
            S3 = from_(text)  # reading the same document again yields the same schema (every read, not only the first)
            asserts.append(("roundtrip/equal_on_second_read", v.holds(bool(S3 == S))))
            n_checks = (sum(len(c.checks) for c in S.columns.values()) + len(S.checks), sum(len(c.checks) for c in S2.columns.values()) + len(S2.checks))
            if v.sym:
                same_text = _plain_equal(v, text.obj, text2.obj)
            else:
                same_text = text == text2
            asserts.append(("roundtrip/equal", v.holds(eq)))
            asserts.append(("roundtrip/same_number_of_checks", v.holds(n_checks[0] == n_checks[1])))
            asserts.append(("roundtrip/idempotent_text", v.holds(same_text)))
            facts["kind"] = "ok"
        except Exception as exc:  # noqa: BLE001 - a schema built from serialisable parts must serialise
            facts["kind"] = "raised:" + type(exc).__name__
            facts["_msg"] = str(exc)[:150]
            asserts.append(("roundtrip/serialisable", v.holds(False)))
        asserts.append(("roundtrip/schema_unchanged", v.holds(fingerprint(S) == fp0)))
        if not v.sym and fmt == "yaml" and facts["kind"] == "ok":
            # concrete complement for the text-level clause (not part of the solver claim): generated script
            try:
                script = S.to_script()
                ns = {}
                exec(script, ns)  # noqa: S102 - executing pandera's own generated schema script
                asserts.append(("roundtrip/script_equal", bool(ns["schema"] == S)))
                S4 = ns["schema"]
                if S.index is not None and S4.index is not None:
                    lv = lambda ix: list(getattr(ix, "indexes", [ix]))  # noqa: E731
                    same = len(lv(S.index)) == len(lv(S4.index)) and all(
                        (a.nullable, a.coerce, a.name, bool(a.unique)) == (b.nullable, b.coerce, b.name, bool(b.unique)) for a, b in zip(lv(S.index), lv(S4.index)))
                    asserts.append(("roundtrip/script_index_flags", bool(same)))
            except Exception as exc:  # noqa: BLE001
                facts["_script"] = "raised:" + type(exc).__name__ + ":" + str(exc)[:100]
                asserts.append(("roundtrip/script_equal", False))
    finally:
        IO.yaml, IO.json = saved
    return dict(obs=None, asserts=asserts, facts=facts)


# ------------------------------------------------------------------ an inferred schema accepts its source (C14)
def infer_case(v, shape, kinds, N, serialise):
    import builtins

    import pandera.io.pandas_io as IO
    import pandera.schema_statistics.pandas as SS
    from symx import SymInt as _SI, SymReal as _SR

    def sym_float(x):
        # exact for |x| <= 2**53 (claim bound of the symbolic run); beyond that the bit-precise lemma of this check applies
        if isinstance(x, _SI):
            return _SR(z3.ToReal(x.z))
        if isinstance(x, _SR):
            return x
        return builtins.float(x)

    idx_levels = None
    if shape == "series":
        obj = v.series("c0_", kinds[0], N, sname="c0", labels="l")
        cells = {"c0": v.cells("c0_", kinds[0], N, kinds[0] in ("float", "str"))}
    elif shape in ("mi", "mi_filtered", "mi_emptyname"):
        # two-level MultiIndex; "mi_filtered": one more row is built and sliced off again (its level values stay in the index)
        extra = 1 if shape == "mi_filtered" else 0
        arr = [(f"c{i}", k) for i, k in enumerate(kinds)]
        # mi_emptyname: a level whose name is the empty string (a falsy but legal name, e.g. after set_index(["k", ""]))
        lv0 = "" if shape == "mi_emptyname" else "k0"
        obj = v.mi_frame(arr, N, levels=[(lv0, "l"), ("k1", "m")], extra_filtered=extra)
        cells = {c: tuple(x[:N] for x in v.cells(f"{c}_", k, N + extra, k in ("float", "str"))) for c, k in arr}
        idx_levels = {lv0: v.labels("l", N + extra)[:N], "k1": v.labels("m", N + extra)[:N]}
    elif shape in ("frame_default_index", "frame_reversed"):
        # pandas' default RangeIndex, as it is and reversed (`df[::-1]`: start > stop, step -1)
        arr = [(f"c{i}", k) for i, k in enumerate(kinds)]
        obj = v.frame(arr, N, reverse=(shape == "frame_reversed"))
        cells = {c: v.cells(f"{c}_", k, N, k in ("float", "str")) for c, k in arr}
    else:
        arr = [(f"c{i}", k) for i, k in enumerate(kinds)]
        obj = v.frame(arr, N, labels="l")
        cells = {c: v.cells(f"{c}_", k, N, k in ("float", "str")) for c, k in arr}
    snap = H.snapshot(obj)
    saved = (getattr(SS, "float", None), IO.yaml)
    facts, asserts = dict(shape=shape, kinds=list(kinds)), []
    try:
        if v.sym:
            SS.float = sym_float
            IO.yaml = _YamlStub
        try:
            schema = pa.infer_schema(obj)
        except Exception as exc:  # noqa: BLE001 - inference must succeed for every frame of supported dtypes
            facts["infer"] = "raised:" + type(exc).__name__
            facts["_msg"] = str(exc)[:120]
            return dict(obs=None, asserts=[("infer/succeeds", v.holds(False))], facts=facts)
        facts["infer"] = "ok"
        o = H.outcome(lambda: schema.validate(obj))
        asserts.append(("infer/accepts_source", v.holds(o["kind"] == "accept")))
        if o["kind"] == "accept":
            asserts.append(("infer/returns_source_unchanged", H.equal_to_snapshot(v, o["out"], snap)))
        # tightness: the inferred bounds are attained by the data
        comps = {"c0": schema} if shape == "series" else schema.columns
        for cname, (xs, ns) in cells.items():
            comp = comps[cname]
            st = {c.name: c.statistics for c in comp.checks}
            if "greater_than_or_equal_to" in st:
                mn, mx = st["greater_than_or_equal_to"]["min_value"], st["less_than_or_equal_to"]["max_value"]
                mnz, mxz = v.z(mn), v.z(mx)
                R = lambda t: z3.ToReal(t) if z3.is_int(t) else t  # noqa: E731
                live = [z3.Not(n) for n in ns]
                asserts.append((f"infer/min_is_attained/{cname}", v.holds(z3.And(zor(z3.And(l, R(x) == R(mnz)) for x, l in zip(xs, live)),
                                                                                    zand(z3.Implies(l, R(x) >= R(mnz)) for x, l in zip(xs, live))))))
                asserts.append((f"infer/max_is_attained/{cname}", v.holds(z3.And(zor(z3.And(l, R(x) == R(mxz)) for x, l in zip(xs, live)),
                                                                                    zand(z3.Implies(l, R(x) <= R(mxz)) for x, l in zip(xs, live))))))
        if idx_levels is not None and N > 0:
            for comp in schema.index.indexes:
                st = {c.name: c.statistics for c in comp.checks}
                if "greater_than_or_equal_to" in st and comp.name in idx_levels:
                    ls = idx_levels[comp.name]
                    mnz, mxz = v.z(st["greater_than_or_equal_to"]["min_value"]), v.z(st["less_than_or_equal_to"]["max_value"])
                    R = lambda t: z3.ToReal(t) if z3.is_int(t) else t  # noqa: E731
                    asserts.append((f"infer/min_is_attained/index:{comp.name}", v.holds(z3.And(zor(R(x) == R(mnz) for x in ls), zand(R(x) >= R(mnz) for x in ls)))))
                    asserts.append((f"infer/max_is_attained/index:{comp.name}", v.holds(z3.And(zor(R(x) == R(mxz) for x in ls), zand(R(x) <= R(mxz) for x in ls)))))
        if serialise and shape != "series":
            try:
                s2 = IO.from_yaml(IO.to_yaml(schema))
                o2 = H.outcome(lambda: s2.validate(obj))
                asserts.append(("infer/survives_serialisation", v.holds(o2["kind"] == "accept")))
                facts["reloaded"] = o2["kind"]
            except Exception as exc:  # noqa: BLE001
                facts["reloaded"] = "raised:" + type(exc).__name__
                facts["_reload_msg"] = str(exc)[:80]  # message text is outside the claim (not compared between the two sides)
                asserts.append(("infer/survives_serialisation", v.holds(False)))
    finally:
        if saved[0] is None:
            if hasattr(SS, "float"):
                del SS.float
        else:
            SS.float = saved[0]
        IO.yaml = saved[1]
    return dict(obs=o, asserts=asserts, facts=facts)


# ------------------------------------------------------------------ coercion contract (C10, narrow claim)
STUB_EXC = {"ValueError": ValueError, "TypeError": TypeError, "OverflowError": OverflowError, "ArithmeticError": ArithmeticError, "KeyError": KeyError}


def _stub_dtype(v, u, target="float64", engine="pandas", exc="ValueError"):
    """a pandas_engine DataType whose element conversion is a contract stub: element i cannot be converted iff u[i];
    coerce (the vectorised conversion) raises iff some present element cannot be converted.  Cell values ARE the slot
    numbers, so coerce_value(x) can consult u[x]."""
    import numpy as np
    from pandera.engines import numpy_engine, pandas_engine

    EXC = STUB_EXC[exc]  # what the element conversion raises: any exception type means "cannot be converted"
    base = pandas_engine.DataType if engine == "pandas" else numpy_engine.DataType

    class StubDT(base):
        """derives from pandas_engine.DataType so that the REAL pandas_engine.DataType.try_coerce (which hands `self` to
        numpy_pandas_coerce_failure_cases) is the code under analysis"""
        type = np.dtype(target)

        def coerce(self, data_container):
            if isinstance(data_container, symframe.Series):
                from symx import eng

                bad = zor(z3.And(p, v.z(u[_slot(x)])) for x, p in zip(data_container.vals, data_container.present))
                if eng().branch(bad):
                    raise EXC("stub: cannot convert")
                return data_container._new(vals=[z3.RealVal(x.slot) if isinstance(x, EqCell) else (z3.ToReal(x) if z3.is_int(x) else x) for x in data_container.vals],
                                           dtype=np.dtype(target), kind="float")
            if any(bool(u[_slot(x)]) for x in data_container.tolist()):
                raise EXC("stub: cannot convert")
            if any(isinstance(x, EqCell) for x in data_container.tolist()):
                import pandas as _pd

                return _pd.Series([float(_slot(x)) for x in data_container.tolist()], index=data_container.index, name=data_container.name, dtype=target)
            return data_container.astype(target)

        def coerce_value(self, value):
            i = _slot(value)
            flag = u[i]
            if bool(flag):
                raise EXC("stub: cannot convert element")
            return value

    return StubDT(np.dtype(target))


class EqCell:
    """an element that knows its slot; two cells with the same key compare equal and hash alike (like 1, 1.0 and True do) although
    the element conversion may treat them differently"""

    def __init__(self, slot, key):
        self.slot, self.key = slot, key

    def __eq__(self, o):
        return isinstance(o, EqCell) and o.key == self.key

    def __hash__(self):
        return hash(("EqCell", self.key))

    def __repr__(self):
        return f"cell{self.slot}(key={self.key})"

    def __deepcopy__(self, memo):
        return self

    def __lt__(self, o):
        return self.slot < o.slot


def _slot(x):
    from symx import SymInt as _SI, SymReal as _SR

    if isinstance(x, EqCell):
        return x.slot

    if isinstance(x, (_SI, _SR)):
        x = x.z
    if z3.is_expr(x):
        s = z3.simplify(x)
        if z3.is_int_value(s):
            return s.as_long()
        if z3.is_rational_value(s):
            return int(s.as_fraction())
        raise ModelGapT("slot number is not concrete")
    return int(x)


from symx import ModelGap as ModelGapT  # noqa: E402


def coerce_stub_case(v, N, container, keys=None, engine="pandas", exc="ValueError", distinct_labels=True):
    """the real try_coerce / numpy_pandas_coerce_failure_cases protocol over the stub pair.  keys: None = the elements are the
    slot numbers; a list = object elements, slots with the same key compare equal (and hash alike) but convert independently"""
    from pandera import errors as E

    u = [v.bool(f"u{i}") for i in range(N)]
    dt = _stub_dtype(v, u, engine=engine, exc=exc)
    labels = [z3.Int(f"l{i}") for i in range(N)]
    if keys is None:
        obj = v.frame([("c", "int", False, list(range(N)))], N, labels="l", distinct_labels=distinct_labels)
    else:
        obj = v.frame([("c", "object", False, [EqCell(i, keys[i]) for i in range(N)])], N, labels="l", distinct_labels=distinct_labels)
    ser = obj["c"] if not v.sym else obj._get("c")
    if container == "index":
        raise KeyError(container)
    snap = H.snapshot(ser)
    asserts, facts = [], {}
    try:
        out = dt.try_coerce(ser)
        facts["kind"] = "coerced"
        asserts.append(("coerce/succeeds_only_if_all_convertible", v.holds(z3.Not(zor(v.z(x) for x in u)))))
        if keys is None:  # (object elements have no numeric value to compare; the clauses below are asserted on the numeric templates)
            asserts.append(("coerce/same_rows_and_labels", H.equal_to_snapshot(v, out, snap, values_only=True)))
        asserts.append(("coerce/result_passes_dtype_check", v.holds(bool(dt.check(pa_engine_dtype(out.dtype))))))
        if keys is None:
            out2 = dt.try_coerce(out)
            asserts.append(("coerce/idempotent", H.equal_to_snapshot(v, out2, H.snapshot(out))))
    except E.ParserError as exc:
        facts["kind"] = "ParserError"
        fc = exc.failure_cases
        asserts.append(("coerce/fails_only_if_some_inconvertible", v.holds(zor(v.z(x) for x in u))))
        # failure cases are exactly the inconvertible elements (label, value)
        if fc is None:
            asserts.append(("coerce/failure_cases_exact", v.holds(False)))
        elif isinstance(fc, symframe.DataFrame):
            cols = {k: c for k, c in fc._cols}
            R = len(fc.present)
            comp, sound = [], []
            for i in range(N):
                hit = zor(z3.And(fc.present[r], _num_eq(cols["index"].vals[r], labels[i]), _is_slot(cols["failure_case"].vals[r], i)) for r in range(R))
                comp.append(z3.Implies(v.z(u[i]), hit))
            for r in range(R):
                sound.append(z3.Implies(fc.present[r], zor(z3.And(v.z(u[i]), _num_eq(cols["index"].vals[r], labels[i]), _is_slot(cols["failure_case"].vals[r], i)) for i in range(N))))
            asserts.append(("coerce/failure_cases_exact", v.holds(z3.And(zand(comp), zand(sound)))))
        else:
            got = sorted((int(r["index"]), _slot(r["failure_case"])) for _, r in fc.iterrows())
            want = sorted((int(v.vals.term(labels[i])), i) for i in range(N) if bool(u[i]))
            asserts.append(("coerce/failure_cases_exact", got == want))
    except Exception as exc:  # noqa: BLE001
        facts["kind"] = "leak:" + type(exc).__name__
        facts["_msg"] = str(exc)[:150]
        asserts.append(("coerce/documented_error", v.holds(False)))
    asserts.append(("coerce/input_unchanged", H.equal_to_snapshot(v, ser, snap)))
    return dict(obs=None, asserts=asserts, facts=facts)


def _is_slot(val, i):
    if isinstance(val, EqCell):
        return z3.BoolVal(val.slot == i)
    return _num_eq(val, z3.IntVal(i))


def coerce_category_case(v, N, level):
    """pandera's own Category.coerce / coerce_value (values outside the categories must not be silently turned into nulls) through
    try_coerce and through a coercing column: succeeds iff every non-null value is a category; then values and nulls are unchanged;
    otherwise the failure cases are exactly the elements outside the categories"""
    from pandera import errors as E
    from pandera.engines import pandas_engine

    cats = ["a", "b"]
    dt = pandas_engine.Category(cats)
    labels = [z3.Int(f"l{i}") for i in range(N)]
    asserts, facts = [], {}
    if level == "column":
        df = v.frame([("x", "str")], N, labels="l", distinct_labels=True)
        xs, ns = v.cells("x_", "str", N, True)
        inside = [z3.Or(*[x == z3.StringVal(c) for c in cats]) for x in xs]
        bad = [z3.And(z3.Not(n), z3.Not(i)) for n, i in zip(ns, inside)]
        schema = pa.DataFrameSchema({"x": pa.Column(dt, coerce=True, nullable=True)})
        o = H.outcome(lambda: schema.validate(df))
        facts["kind"] = o["kind"]
        asserts.append(("coerce/column_accepts_iff_all_values_are_categories", v.iff(o["kind"] == "accept", z3.Not(zor(bad)))))
        return dict(obs=None, asserts=asserts, facts=facts)
    ser = v.series("x", "str", N, sname="s", labels="l", distinct_labels=True)
    xs, ns = v.cells("x", "str", N, True)
    inside = [z3.Or(*[x == z3.StringVal(c) for c in cats]) for x in xs]
    bad = [z3.And(z3.Not(n), z3.Not(i)) for n, i in zip(ns, inside)]
    snap = H.snapshot(ser)
    try:
        out = dt.try_coerce(ser)
        facts["kind"] = "coerced"
        asserts.append(("coerce/succeeds_only_if_all_convertible", v.holds(z3.Not(zor(bad)))))
        asserts.append(("coerce/same_rows_and_labels", H.equal_to_snapshot(v, out, snap, values_only=True)))
    except E.ParserError as exc:
        facts["kind"] = "ParserError"
        fc = exc.failure_cases
        asserts.append(("coerce/fails_only_if_some_inconvertible", v.holds(zor(bad))))
        if isinstance(fc, symframe.DataFrame):
            cols = {k: c for k, c in fc._cols}
            R = len(fc.present)
            comp = [z3.Implies(bad[i], zor(z3.And(fc.present[r], _num_eq(cols["index"].vals[r], labels[i]), cols["failure_case"].vals[r] == xs[i]) for r in range(R))) for i in range(N)]
            sound = [z3.Implies(fc.present[r], zor(z3.And(bad[i], _num_eq(cols["index"].vals[r], labels[i])) for i in range(N))) for r in range(R)]
            asserts.append(("coerce/failure_cases_exact", v.holds(z3.And(zand(comp), zand(sound)))))
        elif fc is None:
            asserts.append(("coerce/failure_cases_exact", v.holds(False)))
        else:
            got = sorted(int(r["index"]) for _, r in fc.iterrows())
            want = sorted(int(v.vals.term(labels[i])) for i in range(N) if v.vals.term(bad[i]))
            asserts.append(("coerce/failure_cases_exact", got == want))
    except Exception as exc:  # noqa: BLE001
        facts["kind"] = "leak:" + type(exc).__name__
        facts["_msg"] = str(exc)[:150]
        asserts.append(("coerce/documented_error", v.holds(False)))
    asserts.append(("coerce/input_unchanged", H.equal_to_snapshot(v, ser, snap)))
    return dict(obs=None, asserts=asserts, facts=facts)


def pa_engine_dtype(dt):
    from pandera.engines import pandas_engine

    return pandas_engine.Engine.dtype(dt)


def coerce_schema_case(v, direction, N, level, lazy):
    """schema-level use with the numeric astype model: accepts iff the data is coercible and the COERCED data satisfies the
    declared constraints (this notices a coercion that is silently skipped on some path)"""
    lo = v.int("lo")
    src, dst = ("int", float) if direction == "i2f" else ("float", int)
    arr = [("a", src)]
    df = v.frame(arr, N, labels="l", distinct_labels=True)
    xs, ns = v.cells("a_", src, N, src == "float")
    if level == "column":
        schema = pa.DataFrameSchema({"a": pa.Column(dst, Check.ge(lo), coerce=True, unique=v.bool("unique"))})
    elif level == "schema":
        schema = pa.DataFrameSchema({"a": pa.Column(dst, Check.ge(lo), unique=v.bool("unique"))}, coerce=True)
    elif level == "series":
        schema = pa.SeriesSchema(dst, Check.ge(lo), coerce=True, unique=v.bool("unique"), name="a")
        df = df["a"] if not v.sym else df._get("a")
    elif level == "component":
        schema = pa.Column(dst, Check.ge(lo), coerce=True, unique=v.bool("unique"), name="a")
    o = H.outcome(lambda: schema.validate(df, lazy=lazy))
    uniq = v.z(schema.unique if level in ("series", "component") else schema.columns["a"].unique)
    if direction == "i2f":
        conv = [z3.ToReal(x) for x in xs]
        coercible = z3.BoolVal(True)
    else:
        conv = [z3.If(x >= 0, z3.ToInt(x), -z3.ToInt(-x)) for x in xs]  # numpy truncates towards zero
        coercible = z3.Not(zor(ns))
    okc = zand(c >= v.z(lo) for c in conv)
    nodup = zand(conv[i] != conv[j] for i in range(N) for j in range(i))
    spec = z3.And(coercible, okc, z3.Implies(uniq, nodup))
    asserts = [("coerce/schema_verdict", v.iff(o["kind"] == "accept", spec)), ("coerce/schema_channel", v.holds(channel_ok(o)))]
    if o["kind"] != "accept":
        reasons = o.get("reasons") or [o.get("reason")]
        asserts.append(("coerce/uncoercible_reported_as_coercion_error", v.iff("DATATYPE_COERCION" in reasons, z3.Not(coercible)) if lazy else v.holds(True)))
    if o["kind"] == "accept":
        out = o["out"]
        want_kind = "float" if direction == "i2f" else "int"
        if isinstance(out, (symframe.DataFrame, symframe.Series)):
            col = out._get("a") if isinstance(out, symframe.DataFrame) else out
            asserts.append(("coerce/output_has_target_dtype", v.holds(col.kind == want_kind)))
            asserts.append(("coerce/output_values_converted", v.holds(zand(z3.And(p, _num_eq(a, b)) for a, b, p in zip(col.vals, conv, col.present)))))
        else:
            col = out["a"] if hasattr(out, "columns") else out
            asserts.append(("coerce/output_has_target_dtype", str(col.dtype).startswith(want_kind)))
            asserts.append(("coerce/output_values_converted", [float(x) for x in col.tolist()] == [float(v.vals.term(c)) for c in conv]))
    return dict(obs=o, asserts=asserts, facts=dict(kind=o["kind"], reason=o.get("reason"), reasons=o.get("reasons")))
