"""Shared templates: one function per schema shape that runs the REAL pandera on a provider-made object (symbolic
shim object or real pandas object) and returns the observation plus the full set of labelled assertions.  Property
modules select the labels they claim (`pick`)."""
from __future__ import annotations

import z3

from pvinstall import install

install()
import pandera as pa  # noqa: E402
from pandera import Check  # noqa: E402

import pvharness as H  # noqa: E402
import pvoracle as O  # noqa: E402
import symframe  # noqa: E402
import pandas as real_pd  # noqa: E402

KINDS = {"a": "float", "b": "int", "x": "int", "a1": "float", "a2": "float", "ba3": "float", "s": "str"}


def pick(fn, labels):
    """template fn restricted to the assertion labels (prefix match) a property claims"""

    def wrapped(v, *args):
        r = fn(v, *args)
        r["asserts"] = [(l, c) for l, c in r["asserts"] if any(l == p or l.startswith(p + ":") or l.startswith(p + "/") for p in labels)]
        return r

    wrapped.__name__ = fn.__name__
    return wrapped


def is_frame(x):
    return isinstance(x, (symframe.DataFrame, real_pd.DataFrame))


def is_series(x):
    return isinstance(x, (symframe.Series, real_pd.Series))


def kind_of_container(x):
    return "DataFrame" if is_frame(x) else "Series" if is_series(x) else type(x).__name__


def ctor_rejects(v, cs):
    """documented constructor errors of the built-ins"""
    if cs.name == "in_range":
        a, b = v.z(cs.P["a"]), v.z(cs.P["b"])
        return z3.Or(a > b, z3.And(a == b, z3.Or(z3.Not(v.z(cs.P["imin"])), z3.Not(v.z(cs.P["imax"])))))
    if cs.name == "str_length":  # documented: at least one of min_value / max_value must be given
        return z3.BoolVal(cs.P.get("minl") is None and cs.P.get("maxl") is None)
    return z3.BoolVal(False)


def channel_ok(o):
    return not o["kind"].startswith("leak:")


# ------------------------------------------------------------------ Series schema × one built-in check
def series_case(v, kind, cname, N, ina, pat=None, lazy=False):
    ser = v.series("x", kind, N, sname="s", labels="l")
    snap = H.snapshot(ser)
    mk = O.numeric_check if kind in ("int", "float") else O.string_check
    cs = mk(v, cname, ina, **({"pat": pat} if pat else {}))
    fs = O.FieldSpec(kind, nullable=v.bool("nullable"), unique=v.bool("unique"), checks=[cs], name="s",
                     report_duplicates=v.choice("rd", ["all", "exclude_first", "exclude_last"]))
    try:
        schema = O.build_series_schema(pa, Check, fs, v)
    except ValueError:
        # argument validation of the constructor (documented: "max_value must not be smaller than min_value")
        return dict(obs=None, asserts=[("ctor_error_iff_documented", v.holds(ctor_rejects(v, cs)))], facts=dict(kind="ctor ValueError"))
    o = H.outcome(lambda: schema.validate(ser, lazy=lazy))
    xs, ns = v.cells("x", kind, N, kind in ("float", "str"))
    spec = z3.And(fs.satisfied(v, xs, ns), z3.Not(ctor_rejects(v, cs)))
    asserts = [("verdict", v.iff(o["kind"] == "accept", spec)),
               ("channel", v.holds(channel_ok(o))),
               ("input_unchanged", H.equal_to_snapshot(v, ser, snap))]
    if o["kind"] == "accept":
        asserts.append(("output_equals_input", H.equal_to_snapshot(v, o["out"], snap)))
        asserts.append(("kind_preserved", v.holds(is_series(o["out"]))))
    return dict(obs=o, asserts=asserts, facts=dict(kind=o["kind"], reason=o.get("reason")))


# ------------------------------------------------------------------ DataFrameSchema over column arrangements
def frame_case(v, arrangement, strict, ordered, N, opts):
    arr = [(c, opts.get("kinds", KINDS)[c]) for c in arrangement]
    lazy = bool(opts.get("lazy"))
    df = v.frame(arr, N, labels="l")
    snap = H.snapshot(df)
    ca = O.numeric_check(v, opts.get("check_a", "ge"), opts.get("ina", True), tag="A")
    cb = O.numeric_check(v, opts.get("check_b", "isin"), True, tag="B")
    fa = O.FieldSpec("float", nullable=v.bool("nullable"), unique=v.bool("unique_a"), checks=[ca], regex=bool(opts.get("regex")))
    req_b_val = True if opts.get("b_required_concrete") else v.bool("req_b")
    fb = O.FieldSpec("int", checks=[cb], required=req_b_val)
    key_a = opts.get("regex") or "a"
    spec = O.FrameSpec({key_a: fa, "b": fb}, strict=strict, ordered=ordered, unique=opts.get("unique"),
                       report_duplicates=opts.get("report_duplicates", "all"))
    schema = spec.build(pa, Check)
    o = H.outcome(lambda: schema.validate(df, lazy=lazy))
    cells = {c: v.cells(f"{c}_", k, N, k in ("float", "str")) for c, k in arr}
    # the label-level part depends on the symbolic `required` flag of b: split on it in the oracle
    sat = []
    for req in (True, False):
        fb.required = req
        sat.append(spec.satisfied(v, arr, cells))
    fb.required = req_b_val
    oracle = z3.If(v.z(req_b_val), sat[0], sat[1])
    asserts = [("verdict", v.iff(o["kind"] == "accept", oracle)),
               ("channel", v.holds(channel_ok(o))),
               ("input_unchanged", H.equal_to_snapshot(v, df, snap))]
    if o["kind"] == "accept":
        if strict != "filter":
            asserts.append(("output_equals_input", H.equal_to_snapshot(v, o["out"], snap)))
        asserts.append(("kind_preserved", v.holds(is_frame(o["out"]))))
    return dict(obs=o, asserts=asserts, facts=dict(kind=o["kind"], reason=o.get("reason")))


ARRANGEMENTS = (["a", "b"], ["b", "a"], ["a"], ["b"], ["a", "b", "x"], ["x", "a", "b"], ["a", "x", "b"])


# ------------------------------------------------------------------ parsing options (C03 C04 C06 C11 C02)
def parse_case(v, arrangement, N, opts):
    """DataFrameSchema {a: float col, b: int col} with any combination of the parsing options:
    opts: coerce in (None,'col','schema'), a_kind ('int' for int->float coercion, 'float'), default (bool), add_missing (bool),
    strict in (False,True,'filter'), drop (bool), lazy (bool), index in (None,'plain','coerce'), unique (joint)"""
    a_kind = opts.get("a_kind", "float")
    kinds = dict(KINDS, a=a_kind)
    arr = [(c, kinds[c]) for c in arrangement]
    lazy = bool(opts.get("lazy")) or bool(opts.get("drop"))
    df = v.frame(arr, N, labels="l", distinct_labels=bool(opts.get("distinct_labels")))
    snap = H.snapshot(df)
    lo = v.int("aA")
    nullable, unique_a = v.bool("nullable"), v.bool("unique_a")
    default = v.int("dflt") if opts.get("default") else None
    coerce_col = opts.get("coerce") == "col"
    idx = None
    ilo = v.int("ilo") if opts.get("index") else None

    def mk(parsing):
        cols = {
            "a": pa.Column(float, Check.ge(lo), nullable=nullable, unique=unique_a, coerce=coerce_col and parsing,
                           default=default if parsing else None, drop_invalid_rows=False),
            "b": pa.Column(int, Check.isin([1, 2, 3]), coerce=coerce_col and parsing),
        }
        index = None
        if opts.get("index"):
            index = pa.Index(int, Check.ge(ilo), coerce=parsing and opts.get("index") == "coerce")
        return pa.DataFrameSchema(
            cols, index=index, coerce=parsing and opts.get("coerce") == "schema",
            strict=(opts.get("strict", False) if parsing or opts.get("strict") is not True else True) if parsing else (True if opts.get("strict") in (True, "filter") else False),
            add_missing_columns=parsing and bool(opts.get("add_missing")), unique=opts.get("unique"),
            drop_invalid_rows=parsing and bool(opts.get("drop")))

    schema = mk(True)
    o = H.outcome(lambda: schema.validate(df, lazy=lazy))
    asserts = [("channel", v.holds(channel_ok(o))), ("input_unchanged", H.equal_to_snapshot(v, df, snap))]
    facts = dict(kind=o["kind"], reason=o.get("reason"), reasons=o.get("reasons"))
    if o["kind"] == "accept":
        out = o["out"]
        asserts.append(("kind_preserved", v.holds(is_frame(out))))
        if is_frame(out):
            osnap = H.snapshot(out)
            stripped = mk(False)
            o2 = H.outcome(lambda: stripped.validate(out, lazy=False))
            facts["revalidate_stripped"] = o2["kind"] + (":" + str(o2.get("reason")) if o2.get("reason") else "")
            asserts.append(("fixpoint_conforms", v.holds(o2["kind"] == "accept")))
            o3 = H.outcome(lambda: schema.validate(out, lazy=lazy))
            facts["revalidate_same"] = o3["kind"]
            asserts.append(("fixpoint_accepts_again", v.holds(o3["kind"] == "accept")))
            if o3["kind"] == "accept":
                asserts.append(("fixpoint_identity", H.equal_to_snapshot(v, o3["out"], osnap)))
    return dict(obs=o, asserts=asserts, facts=facts)


# ------------------------------------------------------------------ SeriesSchema with an index schema
def series_index_case(v, N, lazy, val_coerce, idx_coerce):
    """data: int Series with int labels; schema value dtype float when val_coerce (int->float), index dtype float
    when idx_coerce."""
    ser = v.series("x", "int", N, sname="s", labels="l")
    snap = H.snapshot(ser)
    lo, ilo = v.int("lo"), v.int("ilo")

    def mk(parsing):
        return pa.SeriesSchema(float if val_coerce else int, checks=Check.ge(lo), coerce=val_coerce and parsing, name="s",
                               index=pa.Index(float if idx_coerce else int, Check.ge(ilo), coerce=idx_coerce and parsing))

    schema = mk(True)
    o = H.outcome(lambda: schema.validate(ser, lazy=lazy))
    asserts = [("channel", v.holds(channel_ok(o))), ("input_unchanged", H.equal_to_snapshot(v, ser, snap))]
    facts = dict(kind=o["kind"], reason=o.get("reason"), reasons=o.get("reasons"))
    xs, _ = v.cells("x", "int", N, False)
    ls = [z3.Int(f"l{i}") for i in range(N)]
    spec = z3.And(*[x >= v.z(lo) for x in xs], *[l >= v.z(ilo) for l in ls]) if N else z3.BoolVal(True)
    asserts.append(("verdict", v.iff(o["kind"] == "accept", spec)))
    if o["kind"] == "accept":
        out = o["out"]
        asserts.append(("kind_preserved", v.holds(is_series(out))))
        if is_series(out):
            osnap = H.snapshot(out)
            stripped = mk(False)
            o2 = H.outcome(lambda: stripped.validate(out))
            facts["revalidate_stripped"] = o2["kind"] + (":" + str(o2.get("reason")) if o2.get("reason") else "")
            asserts.append(("fixpoint_conforms", v.holds(o2["kind"] == "accept")))
            o3 = H.outcome(lambda: schema.validate(out, lazy=lazy))
            asserts.append(("fixpoint_accepts_again", v.holds(o3["kind"] == "accept")))
            if o3["kind"] == "accept":
                asserts.append(("fixpoint_identity", H.equal_to_snapshot(v, o3["out"], osnap)))
    return dict(obs=o, asserts=asserts, facts=facts)


# ------------------------------------------------------------------ schema components validated directly
def component_case(v, comp, N, lazy):
    """Column / Index / MultiIndex schema objects called directly on a dataframe."""
    coerce = comp.endswith("_coerce")
    lo = v.int("lo")
    if comp.startswith("multiindex"):
        df = v.mi_frame([("a", "int" if coerce else "float")], N, levels=[("k0", "l"), ("k1", "m")])
        schema = pa.MultiIndex([pa.Index(float if coerce else int, Check.ge(lo), name="k0", coerce=coerce), pa.Index(int, name="k1")])
    else:
        df = v.frame([("a", "int" if coerce else "float"), ("b", "int")], N, labels="l")
        if comp.startswith("column"):
            schema = pa.Column(float, Check.ge(lo), name="a", nullable=v.bool("nullable"), coerce=coerce,
                               default=v.int("dflt") if comp == "column_default" else None)
        else:
            schema = pa.Index(float if coerce else int, Check.ge(lo), coerce=coerce, unique=v.bool("unique"))
    snap = H.snapshot(df)
    o = H.outcome(lambda: schema.validate(df, lazy=lazy))
    asserts = [("channel", v.holds(channel_ok(o))), ("input_unchanged", H.equal_to_snapshot(v, df, snap))]
    if o["kind"] == "accept":
        asserts.append(("kind_preserved", v.holds(is_frame(o["out"]))))
    return dict(obs=o, asserts=asserts, facts=dict(kind=o["kind"], reason=o.get("reason"), reasons=o.get("reasons")))
