"""sympl — polars frames + expressions over z3 (stage 2 of DESIGN.md 2.3): enough of the polars API for pandera's real
polars back ends (container, components, base, checks, builtin_checks, polars_engine coercion) to run on symbolic data.

Representation: fixed slots, masked rows.  A column cell is (value term, null flag[, nan flag for float columns]); a
frame is an ordered dict of columns plus one `present` mask.  `LazyFrame` and `DataFrame` are distinct classes
(`lazy()` / `collect()` switch class); a LazyFrame carries the *pending* errors of strict casts, which are raised at
`collect()` like polars does.  Boolean expressions follow polars' Kleene logic, `filter` drops null predicates,
`all()`/`any()` ignore nulls, comparisons use polars' total order for NaN (NaN == NaN, NaN greater than every number).

The module global `pl` of pandera's polars modules is replaced by `PROXY`, which hands out the shim constructors while
`MODE.sym` is set (symbolic execution) and real polars otherwise (concrete replay in the same process).
Every modelled operation is validated per path against real polars by the runner's differential replay."""
from __future__ import annotations

import re as _re
import sys

import polars as real_pl
import z3

from symframe import F, T, regex_language, zand, zor
from symx import ModelGap, SymBool, SymInt, SymReal, SymStr, eng, lift_bool, lift_num, lift_str, sb, wrap_num

KIND = [(real_pl.Int64, "int"), (real_pl.Int32, "int"), (real_pl.Int16, "int"), (real_pl.Int8, "int"), (real_pl.UInt32, "int"),
        (real_pl.Float64, "float"), (real_pl.Float32, "float"), (real_pl.String, "str"), (real_pl.Boolean, "bool"), (real_pl.Null, "null")]


def kind_of(dtype):
    for k, v in KIND:
        if dtype == k:
            return v
    raise ModelGap(f"dtype {dtype}")


STR_MAXLEN = 4  # bound of the UTF-8 length encoding (len_bytes)


class MODE:
    sym = False


def set_mode(sym: bool):
    MODE.sym = bool(sym)


class Col:
    __slots__ = ("vals", "nulls", "dtype", "nans", "rendered")

    def __init__(self, vals, nulls, dtype, nans=None, rendered=None):
        self.vals, self.nulls, self.dtype = list(vals), list(nulls), dtype
        self.nans = list(nans) if nans is not None else None  # float columns only; None = no NaN anywhere
        self.rendered = rendered  # kind the values had before a cast to String (text is outside the claim)

    @property
    def kind(self):
        return kind_of(self.dtype)

    def nan(self, i):
        return self.nans[i] if self.nans is not None else F

    def __len__(self):
        return len(self.vals)


class _Agg(Col):
    """single-slot result of an aggregation"""
    __slots__ = ()


def BOOL(vals, nulls):
    return Col(vals, nulls, real_pl.Boolean)


def _const_kind(v):
    if isinstance(v, (bool, SymBool)):
        return "bool"
    if isinstance(v, (int, SymInt)):
        return "int"
    if isinstance(v, (float, SymReal)):
        return "float"
    if isinstance(v, str):
        return "str"
    if v is None:
        return "null"
    import numpy as np

    if isinstance(v, np.bool_):
        return "bool"
    if isinstance(v, np.integer):
        return "int"
    if isinstance(v, np.floating):
        return "float"
    raise ModelGap(f"literal of type {type(v).__name__}")


def _lit_term(v, kind):
    if kind in ("int", "float"):
        if isinstance(v, (bool, SymBool, str)):
            raise real_pl.exceptions.InvalidOperationError("cannot compare number with non-number")
        return lift_num(v)
    if kind == "str":
        if not isinstance(v, str):
            raise real_pl.exceptions.InvalidOperationError("cannot compare string with non-string")
        return lift_str(v)
    if kind == "bool":
        return lift_bool(v)
    raise ModelGap(f"literal for kind {kind}")


DEFAULT_DTYPE = {"bool": real_pl.Boolean, "int": real_pl.Int64, "float": real_pl.Float64, "str": real_pl.String, "null": real_pl.Null}
_ZERO = {"int": z3.IntVal(0), "float": z3.RealVal(0), "str": z3.StringVal(""), "bool": F, "null": z3.IntVal(0)}


def _eqcell(c, i, j):
    """row equality of two cells of one column as polars' is_duplicated/unique see it (null == null, NaN == NaN)"""
    both_null = z3.And(c.nulls[i], c.nulls[j])
    neither = z3.And(z3.Not(c.nulls[i]), z3.Not(c.nulls[j]))
    if c.nans is not None:
        same = z3.Or(z3.And(c.nan(i), c.nan(j)), z3.And(z3.Not(c.nan(i)), z3.Not(c.nan(j)), c.vals[i] == c.vals[j]))
    else:
        same = c.vals[i] == c.vals[j]
    return z3.Or(both_null, z3.And(neither, same))


# ------------------------------------------------------------------------------------------------ expressions
class Expr:
    """fn(frame) -> list[(name, Col)]"""

    def __init__(self, fn):
        self.fn = fn

    def _map(self, g):
        return Expr(lambda fr: [(n, g(c, fr)) for n, c in self.fn(fr)])

    def alias(self, name):
        def f(fr):
            outs = self.fn(fr)
            if len(outs) != 1:
                raise ModelGap("alias on multi-output expression")
            return [(name, outs[0][1])]
        return Expr(f)

    # -- comparisons
    def _cmp(self, o, op):
        if isinstance(o, Expr):
            return self._bin(o, lambda a, b: _cmp_cols(a, b, op))

        def g(c, fr):
            if c.rendered:
                raise ModelGap("comparison on rendered text")
            k = c.kind
            if k == "null":
                return BOOL([F] * len(c), [T] * len(c))
            oz = _lit_term(o, k)
            out = []
            for i, v in enumerate(c.vals):
                out.append(_cmp_terms(v, c.nan(i), oz, F, op))
            return BOOL(out, c.nulls)
        return self._map(g)

    def eq(self, o): return self._cmp(o, "eq")
    def ne(self, o): return self._cmp(o, "ne")
    def gt(self, o): return self._cmp(o, "gt")
    def ge(self, o): return self._cmp(o, "ge")
    def lt(self, o): return self._cmp(o, "lt")
    def le(self, o): return self._cmp(o, "le")
    __eq__ = eq  # type: ignore[assignment]
    __ne__ = ne  # type: ignore[assignment]
    __gt__, __ge__, __lt__, __le__ = gt, ge, lt, le
    __hash__ = None  # type: ignore[assignment]

    def is_between(self, lo, hi, closed="both"):
        lo_e = self.ge(lo) if closed in ("both", "left") else self.gt(lo)
        hi_e = self.le(hi) if closed in ("both", "right") else self.lt(hi)
        return lo_e.and_(hi_e)

    def is_in(self, values):
        values = list(values)

        def g(c, fr):
            k = c.kind
            vs = []
            for v in values:
                if v is None:
                    continue
                vk = _const_kind(v)
                if vk == k or {vk, k} <= {"int", "float"}:
                    vs.append(_lit_term(v, k))
                else:
                    raise real_pl.exceptions.InvalidOperationError("is_in: incompatible literal")
            return BOOL([z3.And(z3.Not(c.nan(i)), zor(x == v for v in vs)) for i, x in enumerate(c.vals)], c.nulls)
        return self._map(g)

    # -- Kleene logic
    def _bin(self, o, comb):
        if not isinstance(o, Expr):
            o = lit(o)

        def f(fr):
            A, B = self.fn(fr), o.fn(fr)
            if len(B) == 1 and len(A) > 1:
                B = B * len(A)
            if len(A) == 1 and len(B) > 1:
                A = A * len(B)
            if len(A) != len(B):
                raise ModelGap("binary expression arity")
            out = []
            for (n, a), (_, b) in zip(A, B):
                if len(a) != len(b):
                    if len(b) == 1:
                        b = Col(b.vals * len(a), b.nulls * len(a), b.dtype, None if b.nans is None else b.nans * len(a))
                    elif len(a) == 1:
                        a = Col(a.vals * len(b), a.nulls * len(b), a.dtype, None if a.nans is None else a.nans * len(b))
                    else:
                        raise ModelGap("binary expression heights")
                out.append((n, comb(a, b)))
            return out
        return Expr(f)

    def and_(self, *others):
        r = self
        for o in others:
            r = r._bin(o, _kleene_and)
        return r

    def or_(self, *others):
        r = self
        for o in others:
            r = r._bin(o, _kleene_or)
        return r

    __and__ = and_
    __or__ = or_
    __rand__ = and_
    __ror__ = or_

    def not_(self):
        def g(c, fr):
            if c.kind != "bool":
                raise real_pl.exceptions.InvalidOperationError("not_ on non-boolean")
            return BOOL([z3.Not(v) for v in c.vals], c.nulls)
        return self._map(g)

    __invert__ = not_

    def is_null(self):
        return self._map(lambda c, fr: BOOL(c.nulls, [F] * len(c)))

    def is_not_null(self):
        return self._map(lambda c, fr: BOOL([z3.Not(n) for n in c.nulls], [F] * len(c)))

    def is_nan(self):
        def g(c, fr):
            if c.kind != "float":
                raise real_pl.exceptions.InvalidOperationError("is_nan on non-float")
            return BOOL([c.nan(i) for i in range(len(c))], c.nulls)
        return self._map(g)

    def is_not_nan(self):
        def g(c, fr):
            if c.kind != "float":
                raise real_pl.exceptions.InvalidOperationError("is_not_nan on non-float")
            return BOOL([z3.Not(c.nan(i)) for i in range(len(c))], c.nulls)
        return self._map(g)

    def is_duplicated(self):
        def g(c, fr):
            n = len(c)
            return BOOL([zor(z3.And(fr.present[j], _eqcell(c, i, j)) for j in range(n) if j != i) for i in range(n)], [F] * n)
        return self._map(g)

    def is_unique(self):
        return self.is_duplicated().not_()

    def all(self, ignore_nulls=True):
        if not ignore_nulls:
            raise ModelGap("all(ignore_nulls=False)")
        return self._map(lambda c, fr: _Agg([zand(z3.Implies(z3.And(p, z3.Not(n)), v) for v, n, p in zip(c.vals, c.nulls, fr.present))], [F], real_pl.Boolean))

    def any(self, ignore_nulls=True):
        if not ignore_nulls:
            raise ModelGap("any(ignore_nulls=False)")
        return self._map(lambda c, fr: _Agg([zor(z3.And(p, z3.Not(n), v) for v, n, p in zip(c.vals, c.nulls, fr.present))], [F], real_pl.Boolean))

    def null_count(self):
        """number of null cells among the rows of the frame (NaN is not null)"""
        return self._map(lambda c, fr: _Agg([z3.Sum([z3.If(z3.And(p, n), 1, 0) for n, p in zip(c.nulls, fr.present)] + [z3.IntVal(0)])], [F], real_pl.UInt32))

    def fill_null(self, value):
        def g(c, fr):
            d = _as_col(value, fr, c)
            return Col([z3.If(n, dv, v) for v, n, dv in zip(c.vals, c.nulls, d.vals)], [z3.And(n, dn) for n, dn in zip(c.nulls, d.nulls)], c.dtype,
                       None if (c.nans is None and d.nans is None) else [z3.If(c.nulls[i], d.nan(i), c.nan(i)) for i in range(len(c))])
        return self._map(g)

    def fill_nan(self, value):
        def g(c, fr):
            if c.kind != "float":
                return c  # polars: fill_nan on a non-float column is a no-op
            d = _as_col(value, fr, c)
            isnan = [z3.And(z3.Not(c.nulls[i]), c.nan(i)) for i in range(len(c))]
            return Col([z3.If(m, dv, v) for v, m, dv in zip(c.vals, isnan, d.vals)],
                       [z3.Or(z3.And(z3.Not(m), n), z3.And(m, dn)) for n, m, dn in zip(c.nulls, isnan, d.nulls)], c.dtype,
                       [z3.If(isnan[i], d.nan(i), c.nan(i)) for i in range(len(c))])
        return self._map(g)

    def cast(self, dtype, strict=True):
        def g(c, fr):
            out, err = cast_col(c, dtype, strict, fr.present)
            if err is not None:
                fr._note_error(err, "cast")
            return out
        return self._map(g)

    def map_elements(self, fn, return_dtype=None, skip_nulls=True):
        def g(c, fr):
            if c.kind not in ("int", "float", "str", "bool"):
                raise ModelGap("map_elements kind")
            if c.nans is not None:
                raise ModelGap("map_elements on a column with NaN")
            outs, nulls = [], []
            for i, v in enumerate(c.vals):
                # rows that are absent or null never reach the function (skip_nulls=True)
                live = sb(z3.And(fr.present[i], z3.Not(c.nulls[i])))
                if live is False or (live is not True and not bool(live)):
                    outs.append(F)
                    nulls.append(T)
                    continue
                x = SymStr(v) if c.kind == "str" else (SymBool(v) if c.kind == "bool" else wrap_num(v))
                r = fn(x)
                outs.append(lift_bool(r))
                nulls.append(F)
            return BOOL(outs, nulls)
        return self._map(g)

    @property
    def str(self):
        return _StrNS(self)

    @property
    def struct(self):
        return _StructNS(self)


def _cmp_terms(v, vnan, o, onan, op):
    """polars total order: NaN == NaN, NaN greater than every number"""
    num = {"eq": lambda: v == o, "ne": lambda: v != o, "gt": lambda: v > o, "ge": lambda: v >= o, "lt": lambda: v < o, "le": lambda: v <= o}[op]()
    if vnan is F and onan is F:
        return num
    if op == "eq":
        return z3.Or(z3.And(vnan, onan), z3.And(z3.Not(vnan), z3.Not(onan), num))
    if op == "ne":
        return z3.Not(z3.Or(z3.And(vnan, onan), z3.And(z3.Not(vnan), z3.Not(onan), num)))
    if op == "gt":
        return z3.Or(z3.And(vnan, z3.Not(onan)), z3.And(z3.Not(vnan), z3.Not(onan), num))
    if op == "ge":
        return z3.Or(vnan, z3.And(z3.Not(onan), num))
    if op == "lt":
        return z3.Or(z3.And(onan, z3.Not(vnan)), z3.And(z3.Not(vnan), z3.Not(onan), num))
    return z3.Or(onan, z3.And(z3.Not(vnan), num))  # le


def _cmp_cols(a, b, op):
    ka, kb = a.kind, b.kind
    if not (ka == kb or {ka, kb} <= {"int", "float"}):
        raise real_pl.exceptions.InvalidOperationError("cannot compare columns of different kinds")
    if ka in ("str", "bool") and op not in ("eq", "ne") and ka == "bool":
        raise ModelGap("ordering of booleans")
    return BOOL([_cmp_terms(a.vals[i], a.nan(i), b.vals[i], b.nan(i), op) for i in range(len(a))], [z3.Or(x, y) for x, y in zip(a.nulls, b.nulls)])


def _kleene_and(a, b):
    if a.kind != "bool" or b.kind != "bool":
        raise real_pl.exceptions.InvalidOperationError("and_ on non-boolean")
    fa = [z3.And(z3.Not(n), z3.Not(x)) for x, n in zip(a.vals, a.nulls)]
    fb = [z3.And(z3.Not(n), z3.Not(x)) for x, n in zip(b.vals, b.nulls)]
    vals = [z3.And(z3.Not(p), z3.Not(q), x, y) for x, y, p, q in zip(a.vals, b.vals, fa, fb)]
    nulls = [z3.And(z3.Or(na, nb), z3.Not(z3.Or(p, q))) for na, nb, p, q in zip(a.nulls, b.nulls, fa, fb)]
    return BOOL(vals, nulls)


def _kleene_or(a, b):
    if a.kind != "bool" or b.kind != "bool":
        raise real_pl.exceptions.InvalidOperationError("or_ on non-boolean")
    ta = [z3.And(z3.Not(n), x) for x, n in zip(a.vals, a.nulls)]
    tb = [z3.And(z3.Not(n), y) for y, n in zip(b.vals, b.nulls)]
    return BOOL([z3.Or(p, q) for p, q in zip(ta, tb)], [z3.And(z3.Or(na, nb), z3.Not(z3.Or(p, q))) for na, nb, p, q in zip(a.nulls, b.nulls, ta, tb)])


def _as_col(value, fr, like):
    """a fill value (python scalar, proxy or Expr) as a column of the height of `like`"""
    n = len(like)
    if isinstance(value, Expr):
        outs = value.fn(fr)
        if len(outs) != 1:
            raise ModelGap("multi-output fill value")
        d = outs[0][1]
        if len(d) == 1 and n != 1:
            d = Col(d.vals * n, d.nulls * n, d.dtype, None if d.nans is None else d.nans * n)
        if d.kind == "null":
            return Col([_ZERO[like.kind]] * n, [T] * n, like.dtype)
        if d.kind != like.kind and not {d.kind, like.kind} <= {"int", "float"}:
            raise real_pl.exceptions.InvalidOperationError("fill value of another kind")
        if d.kind == "int" and like.kind == "float":
            d = Col([z3.ToReal(x) for x in d.vals], d.nulls, like.dtype)
        return d
    if value is None:
        return Col([_ZERO[like.kind]] * n, [T] * n, like.dtype)
    return Col([_lit_term(value, like.kind)] * n, [F] * n, like.dtype)


class _StructNS:
    """only what the multi-column failure-case report needs: the JSON text of a row (text is outside the claim)"""

    def __init__(self, e):
        self.e = e

    def json_encode(self):
        def g(c, fr):
            if c.rendered != "struct":
                raise ModelGap("struct namespace on a non-struct column")
            return c
        return self.e._map(g)


class _Rows(list):
    """DataFrame.rows(named=True): only ever formatted into messages or turned back into a struct Series"""

    def __init__(self, frame):
        super().__init__(["<?rows>"])
        self.frame = frame


class _StrNS:
    def __init__(self, e):
        self.e = e

    def _res(self, g):
        def gg(c, fr):
            if c.kind == "null":
                return BOOL([F] * len(c), [T] * len(c))
            if c.kind != "str" or c.rendered:
                raise real_pl.exceptions.InvalidOperationError("str operation on a non-string column")
            return g(c)
        return self.e._map(gg)

    def contains(self, pattern, literal=False, strict=True):
        if literal:
            return self._res(lambda c: BOOL([z3.Contains(v, z3.StringVal(pattern)) for v in c.vals], c.nulls))
        lang = regex_language(pattern, "search")
        return self._res(lambda c: BOOL([z3.InRe(v, lang) for v in c.vals], c.nulls))

    def starts_with(self, p):
        return self._res(lambda c: BOOL([z3.PrefixOf(lift_str(p), v) for v in c.vals], c.nulls))

    def ends_with(self, p):
        return self._res(lambda c: BOOL([z3.SuffixOf(lift_str(p), v) for v in c.vals], c.nulls))

    def len_bytes(self):
        """UTF-8 byte count, exact for strings of at most STR_MAXLEN characters (the bound is added to the input assumptions)"""
        def g(c):
            from symx import eng

            out = []
            for v in c.vals:
                eng().assume(z3.Length(v) <= STR_MAXLEN)
                tot = z3.IntVal(0)
                for k in range(STR_MAXLEN):
                    code = z3.StrToCode(z3.SubString(v, k, 1))
                    tot = tot + z3.If(z3.IntVal(k) < z3.Length(v), z3.If(code < 128, 1, z3.If(code < 2048, 2, z3.If(code < 65536, 3, 4))), 0)
                out.append(tot)
            return out
        return self._res(lambda c: Col(g(c), c.nulls, real_pl.UInt32))

    def len_chars(self):
        return self._res(lambda c: Col([z3.Length(v) for v in c.vals], c.nulls, real_pl.UInt32))


def _trunc(v):
    return z3.If(v >= 0, z3.ToInt(v), -z3.ToInt(-v))


def cast_col(c, dtype, strict, present):
    """-> (column, error condition or None).  strict casts fail on values the target cannot represent."""
    if isinstance(dtype, type) and not isinstance(dtype, type(real_pl.Int64)):
        dtype = {int: real_pl.Int64, float: real_pl.Float64, str: real_pl.String, bool: real_pl.Boolean}.get(dtype, dtype)
    k_from, k_to = c.kind, kind_of(dtype)
    n = len(c)
    if c.rendered and k_to == "str":
        return Col(c.vals, c.nulls, dtype, c.nans, c.rendered), None
    if c.rendered:
        raise ModelGap("cast of rendered text")
    if k_from == "null":
        return Col([_ZERO[k_to]] * n, [T] * n, dtype), None
    if k_from == k_to:
        return Col(c.vals, c.nulls, dtype, c.nans), None
    if k_from == "int" and k_to == "float":
        return Col([z3.ToReal(v) for v in c.vals], c.nulls, dtype), None
    if k_from == "float" and k_to == "int":
        bad = [z3.And(z3.Not(c.nulls[i]), c.nan(i)) for i in range(n)]
        vals = [_trunc(v) for v in c.vals]
        if strict:
            return Col(vals, c.nulls, dtype), zor(z3.And(p, b) for p, b in zip(present, bad))
        return Col(vals, [z3.Or(nl, b) for nl, b in zip(c.nulls, bad)], dtype), None
    if k_from == "bool" and k_to in ("int", "float"):
        one, zero = (z3.IntVal(1), z3.IntVal(0)) if k_to == "int" else (z3.RealVal(1), z3.RealVal(0))
        return Col([z3.If(v, one, zero) for v in c.vals], c.nulls, dtype), None
    if k_from in ("int", "float") and k_to == "bool":
        return Col([z3.Or(c.nan(i), v != 0) for i, v in enumerate(c.vals)], c.nulls, dtype), None
    if k_to == "str" and k_from in ("int", "float", "bool"):
        return Col(c.vals, c.nulls, dtype, c.nans, rendered=k_from), None
    raise ModelGap(f"cast {k_from}->{k_to}")


def col(name, *more):
    names = [name, *more] if more else name

    def f(fr):
        if isinstance(names, (list, tuple)):
            return [x for nm in names for x in col(nm).fn(fr)]
        if isinstance(names, str):
            if names == "*":
                return list(fr.cols.items())
            if names.startswith("^") and names.endswith("$"):
                return [(k, c) for k, c in fr.cols.items() if _re.search(names, k)]
            if names not in fr.cols:
                raise real_pl.exceptions.ColumnNotFoundError(names)
            return [(names, fr.cols[names])]
        return [(k, c) for k, c in fr.cols.items() if c.dtype == names]  # dtype selector, e.g. pl.col(pl.Boolean)
    return Expr(f)


class _ColNS:
    def __call__(self, name, *more):
        return col(name, *more)

    def __getattr__(self, name):
        if name.startswith("__"):
            raise AttributeError(name)
        return col(name)


def lit(v, dtype=None):
    def f(fr):
        k = _const_kind(v)
        dt = dtype if dtype is not None else DEFAULT_DTYPE[k]
        kt = kind_of(dt)
        if k == "null":
            return [("literal", _Lit([_ZERO[kt]], [T], dt))]
        if kt == k or {kt, k} <= {"int", "float"}:
            z = _lit_term(v, kt if kt != "null" else k)
            if kt == "float" and z3.is_int(z):
                z = z3.ToReal(z)
            if kt == "int" and z3.is_real(z):
                z = _trunc(z)
            return [("literal", _Lit([z], [F], dt))]
        raise real_pl.exceptions.InvalidOperationError(f"literal {type(v).__name__} as {dt}")
    return Expr(f)


class _Lit(Col):
    """height-1 literal, broadcast by the consumer"""
    __slots__ = ()


def length():
    """pl.len(): the number of rows (of the current selection)"""
    return Expr(lambda fr: [("len", _Agg([z3.Sum([z3.If(p, 1, 0) for p in fr.present]) if fr.present else z3.IntVal(0)], [F], real_pl.UInt32))])


def fold(acc, function, exprs):
    def f(fr):
        cols = (exprs if isinstance(exprs, Expr) else col(exprs)).fn(fr)
        a = acc if isinstance(acc, Expr) else lit(acc)
        for n, c in cols:
            a = function(a, Expr(lambda fr2, c=c, n=n: [(n, c)]))
        out = a.fn(fr)
        return [("literal", out[0][1])]
    return Expr(f)


def all_horizontal(*names):
    ex = names[0] if len(names) == 1 and isinstance(names[0], Expr) else col(*names)
    return fold(lit(True), lambda a, x: a & x, ex).alias("all")


class Schema(dict):
    def names(self):
        return list(self)

    def dtypes(self):
        return list(self.values())


class Series:
    def __init__(self, name, c, present):
        self.name, self.c, self.present = name, c, list(present)

    def any(self):
        return bool(sb(zor(z3.And(p, z3.Not(n), v) for v, n, p in zip(self.c.vals, self.c.nulls, self.present))))

    def __invert__(self):
        if self.c.kind != "bool":
            raise real_pl.exceptions.InvalidOperationError("~ on a non-boolean Series")
        return Series(self.name, BOOL([z3.Not(v) for v in self.c.vals], self.c.nulls), self.present)

    not_ = __invert__

    def all(self):
        return bool(sb(zand(z3.Implies(z3.And(p, z3.Not(n)), v) for v, n, p in zip(self.c.vals, self.c.nulls, self.present))))

    @property
    def dtype(self):
        return self.c.dtype

    def __getattr__(self, name):
        if name.startswith("__"):
            raise AttributeError(name)
        raise ModelGap(f"polars Series.{name}")


def _same_mask(a, b):
    """present masks of two frames that are combined row by row must select the same slots"""
    if len(a) != len(b):
        return False
    if all(z3.eq(x, y) for x, y in zip(a, b)):
        return True
    e = eng()
    r = e.check(z3.Not(z3.And(*[x == y for x, y in zip(a, b)])))
    return r == "unsat"


def _broadcast(c, n):
    if len(c) == n:
        return c
    if len(c) == 1:
        return Col(c.vals * n, c.nulls * n, c.dtype, None if c.nans is None else c.nans * n, c.rendered)
    raise real_pl.exceptions.ShapeError("height mismatch")


class _Frame:
    _lazy = False

    def __init__(self, data=None, schema=None, present=None, errors=None):
        self._errors = list(errors or [])
        if isinstance(data, _Frame):
            self.cols, self.present = dict(data.cols), list(data.present)
            self._errors = list(data._errors) + self._errors
            return
        cols, pres = {}, present
        for k, v in (data or {}).items():
            if isinstance(v, _Frame):
                if len(v.cols) != 1:
                    raise ModelGap("multi-column frame as a column")
                if pres is None:
                    pres = v.present
                elif not _same_mask(pres, v.present):
                    raise ModelGap("columns with different row masks")
                (v,) = v.cols.values()
            elif isinstance(v, Series):
                if pres is None:
                    pres = v.present
                elif not _same_mask(pres, v.present):
                    raise ModelGap("columns with different row masks")
                v = v.c
            elif isinstance(v, (list, tuple)):
                v = _col_from_values(v)
            elif v is None:
                pass  # a scalar None is broadcast to the height of the other columns (a column of dtype Null), see below
            elif not isinstance(v, Col):
                raise ModelGap(f"frame column from {type(v).__name__}")
            cols[k] = v
        if any(c is None for c in cols.values()):
            h = next((len(c) for c in cols.values() if c is not None), 1)
            cols = {k: (Col([0] * h, [T] * h, real_pl.Null) if c is None else c) for k, c in cols.items()}
        self.cols = cols
        n = len(next(iter(self.cols.values()))) if self.cols else 0
        if any(len(c) != n for c in self.cols.values()):
            raise real_pl.exceptions.ShapeError("columns of different heights")
        self.present = list(pres) if pres is not None else [T] * n

    # -- helpers
    def _mk(self, cols, present=None, cls=None):
        out = (cls or type(self))(cols, present=self.present if present is None else present)
        out._errors = list(self._errors)
        return out

    def _note_error(self, cond, what):
        """a strict cast that fails: raised now (eager) or at collect() (lazy)"""
        cond = z3.simplify(cond)
        if z3.is_false(cond):
            return
        if self._lazy:
            self._pending_new.append(cond)
        elif bool(sb(cond)):
            raise real_pl.exceptions.InvalidOperationError(f"conversion failed ({what})")

    def _run(self, fn):
        """evaluate expressions; strict-cast failures become pending errors of the result (lazy) or raise (eager)"""
        self._pending_new = []
        out = fn()
        new = self._pending_new
        self._pending_new = []
        return out, new

    def clone(self):
        return self._mk(self.cols)

    def collect_schema(self):
        return Schema({k: c.dtype for k, c in self.cols.items()})

    @property
    def schema(self):
        return self.collect_schema()

    @property
    def columns(self):
        return list(self.cols)

    @property
    def dtypes(self):
        return [c.dtype for c in self.cols.values()]

    @property
    def width(self):
        return len(self.cols)

    def __contains__(self, k):
        return k in self.cols

    def _eval(self, exprs):
        if isinstance(exprs, (str, Expr)):
            exprs = [exprs]
        out = []
        for ex in exprs:
            if isinstance(ex, (list, tuple)):
                out += self._eval(ex)
                continue
            if isinstance(ex, str):
                ex = col(ex)
            if not isinstance(ex, Expr):
                ex = lit(ex)
            out += ex.fn(self)
        return out

    def select(self, *exprs, **named):
        def go():
            outs = self._eval(list(exprs))
            for k, ex in named.items():
                r = (ex if isinstance(ex, Expr) else lit(ex)).fn(self)
                if len(r) != 1:
                    raise ModelGap("named multi-output")
                outs.append((k, r[0][1]))
            return outs
        outs, errs = self._run(go)
        names = [n for n, _ in outs]
        if len(set(names)) != len(names):
            raise real_pl.exceptions.DuplicateError("duplicate output name")
        n = len(self.present)
        if outs and all(isinstance(c, (_Agg, _Lit)) for _, c in outs):
            res = type(self)({k: Col(c.vals, c.nulls, c.dtype, c.nans, c.rendered) for k, c in outs}, present=[T])
        else:
            res = type(self)({k: _plain(_broadcast(c, n)) for k, c in outs}, present=self.present)
        res._errors = list(self._errors) + errs
        return res

    def with_columns(self, *exprs, **named):
        def go():
            new = dict(self.cols)
            n = len(self.present)
            for nm, c in self._eval(list(exprs)):
                new[nm] = _plain(_broadcast(c, n))
            for k, ex in named.items():
                if isinstance(ex, Series):
                    if not _same_mask(self.present, ex.present):
                        raise ModelGap("with_columns(Series) with a different row mask")
                    new[k] = ex.c
                    continue
                r = (ex if isinstance(ex, Expr) else lit(ex)).fn(self)
                if len(r) != 1:
                    raise ModelGap("named multi-output")
                new[k] = _plain(_broadcast(r[0][1], n))
            return new
        new, errs = self._run(go)
        res = self._mk(new)
        res._errors += errs
        return res

    def rename(self, mapping):
        for k in mapping:
            if k not in self.cols:
                raise real_pl.exceptions.ColumnNotFoundError(k)
        return self._mk({mapping.get(k, k): c for k, c in self.cols.items()})

    def drop(self, *cols, strict=True):
        names = []
        for c in cols:
            names += [c] if isinstance(c, str) else list(c)
        for k in names:
            if k not in self.cols and strict:
                raise real_pl.exceptions.ColumnNotFoundError(k)
        return self._mk({k: c for k, c in self.cols.items() if k not in names})

    def cast(self, dtypes, strict=True):
        def go():
            d = dtypes if isinstance(dtypes, dict) else {"*": dtypes}
            new = dict(self.cols)
            for k, dt in d.items():
                targets = col(k).fn(self) if isinstance(k, str) else [(n, c) for n, c in self.cols.items() if c.dtype == k]
                for name, c in targets:
                    out, err = cast_col(c, dt, strict, self.present)
                    if err is not None:
                        self._note_error(err, f"cast {name}")
                    new[name] = out
            return new
        new, errs = self._run(go)
        res = self._mk(new)
        res._errors += errs
        return res

    def filter(self, *preds):
        def go():
            newp = list(self.present)
            for pred in preds:
                if isinstance(pred, Series):
                    if not _same_mask(self.present, pred.present):
                        raise ModelGap("filter(Series) with a different row mask")
                    c = pred.c
                else:
                    outs = (pred if isinstance(pred, Expr) else lit(pred)).fn(self)
                    if len(outs) != 1:
                        raise ModelGap("multi-output predicate")
                    c = _broadcast(outs[0][1], len(self.present))
                if c.kind != "bool":
                    raise real_pl.exceptions.InvalidOperationError("filter predicate must be boolean")
                newp = [z3.And(p, z3.Not(n), v) for p, v, n in zip(newp, c.vals, c.nulls)]
            return newp
        newp, errs = self._run(go)
        res = self._mk(self.cols, present=newp)
        res._errors += errs
        return res

    def head(self, n=5):
        n = _as_count(n)
        out, cnt = [], z3.IntVal(0)
        for p in self.present:
            out.append(z3.And(p, cnt < n))
            cnt = cnt + z3.If(p, 1, 0)
        return self._mk(self.cols, present=out)

    def tail(self, n=5):
        n = _as_count(n)
        out, cnt = [], z3.IntVal(0)
        for p in reversed(self.present):
            out.append(z3.And(p, cnt < n))
            cnt = cnt + z3.If(p, 1, 0)
        return self._mk(self.cols, present=out[::-1])

    def unique(self, subset=None, keep="any", maintain_order=False):
        n = len(self.present)
        if subset is None:
            cols = list(self.cols.values())
        else:
            names = [subset] if isinstance(subset, str) else list(subset)
            for k in names:
                if k not in self.cols:
                    raise real_pl.exceptions.ColumnNotFoundError(k)
            cols = [self.cols[k] for k in names]
        eq = lambda i, j: zand(_eqcell(c, i, j) for c in cols)  # noqa: E731
        newp = [z3.And(self.present[i], z3.Not(zor(z3.And(self.present[j], eq(i, j)) for j in range(i)))) for i in range(n)]
        return self._mk(self.cols, present=newp)  # which duplicate survives / row order is unspecified in polars

    def with_row_index(self, name="index", offset=0):
        idx, cnt = [], z3.IntVal(offset)
        for p in self.present:
            idx.append(cnt)
            cnt = cnt + z3.If(p, 1, 0)
        return self._mk({name: Col(idx, [F] * len(idx), real_pl.UInt32), **self.cols})

    def __str__(self):
        return "<?frame>"

    __repr__ = __str__

    def __format__(self, spec):
        return "<?frame>"

    def __deepcopy__(self, memo):
        return self

    def __copy__(self):
        return self


def _plain(c):
    if isinstance(c, (_Agg, _Lit)):
        return Col(c.vals, c.nulls, c.dtype, c.nans, c.rendered)
    return c


def _as_count(n):
    if isinstance(n, SymInt):
        return n.z
    return z3.IntVal(int(n))


def _col_from_values(values):
    kinds = {_const_kind(x) for x in values if x is not None}
    if len(kinds) > 1 and not kinds <= {"int", "float"}:
        raise ModelGap("mixed literal column")
    k = "float" if "float" in kinds else (next(iter(kinds)) if kinds else "null")
    return Col([_ZERO[k] if x is None else _lit_term(x, k) for x in values], [T if x is None else F for x in values], DEFAULT_DTYPE[k])


class LazyFrame(_Frame):
    _lazy = True

    def collect(self, **kw):
        for cond in self._errors:
            if bool(sb(cond)):
                raise real_pl.exceptions.InvalidOperationError("conversion failed (strict cast)")
        return DataFrame(self.cols, present=self.present)

    def lazy(self):
        return self

    def __getattr__(self, name):
        if name.startswith("__") or name in ("sample", "_pending_new"):
            raise AttributeError(name)  # a polars LazyFrame has no sample()
        raise ModelGap(f"polars LazyFrame.{name}")


class DataFrame(_Frame):
    def lazy(self):
        out = LazyFrame(self.cols, present=self.present)
        return out

    def collect(self, **kw):
        raise AttributeError("collect")

    def is_duplicated(self):
        n = len(self.present)
        cols = list(self.cols.values())
        eq = lambda i, j: zand(_eqcell(c, i, j) for c in cols)  # noqa: E731
        return Series("", BOOL([zor(z3.And(self.present[j], eq(i, j)) for j in range(n) if j != i) for i in range(n)], [F] * n), self.present)

    def item(self, row=None, column=None):
        if len(self.cols) != 1:
            raise ValueError("item() on a frame that is not 1x1")
        (c,) = self.cols.values()
        if len(c) != 1:
            raise ModelGap("item() on a frame with symbolic height")
        if bool(sb(c.nulls[0])):
            return None
        if c.kind in ("int", "float"):
            return wrap_num(c.vals[0])
        if c.kind != "bool":
            raise ModelGap("item() of a " + c.kind)
        return bool(sb(c.vals[0]))

    def __getitem__(self, k):
        if isinstance(k, str):
            if k not in self.cols:
                raise real_pl.exceptions.ColumnNotFoundError(k)
            return Series(k, self.cols[k], self.present)
        raise ModelGap("DataFrame.__getitem__")

    def get_column(self, k):
        return self[k]

    def rows(self, named=False):
        return _Rows(self)

    def sample(self, n=None, *, fraction=None, with_replacement=False, shuffle=False, seed=None):
        """nondeterministic stub (contract): any n distinct present rows; the same (n, seed) picks the same rows within a path"""
        if n is None or fraction is not None or with_replacement:
            raise ModelGap("DataFrame.sample(fraction/with_replacement)")
        from symx import PathAbort

        picks = [z3.Bool(f"plsample!{seed}!{i}") for i in range(len(self.present))]
        try:
            eng().constrain(z3.Sum([z3.If(z3.And(p, k), 1, 0) for p, k in zip(self.present, picks)]) == lift_num(n))
        except PathAbort:
            raise real_pl.exceptions.ShapeError("cannot take a larger sample than the total population when `with_replacement=false`")
        return self._mk(self.cols, present=[z3.And(p, k) for p, k in zip(self.present, picks)])

    # no __len__: the height is symbolic.  pandera's only use is ErrorHandler's failure_cases_count (stored, never read), which
    # falls back to 1 on TypeError.

    @property
    def height(self):
        return wrap_num(z3.Sum([z3.If(p, 1, 0) for p in self.present]) if self.present else z3.IntVal(0))

    @property
    def shape(self):
        return (self.height, len(self.cols))

    def is_empty(self):
        return bool(sb(z3.Not(zor(self.present))))

    def __getattr__(self, name):
        if name.startswith("__") or name == "_pending_new":
            raise AttributeError(name)
        raise ModelGap(f"polars DataFrame.{name}")


def concat(items, how="vertical", **kw):
    items = list(items)
    if not items:
        raise ValueError("cannot concat empty list")
    cls = type(items[0])
    if how == "horizontal":
        cols = {}
        for it in items:
            if not _same_mask(items[0].present, it.present):
                raise ModelGap("horizontal concat of frames with different row masks")
            for k, c in it.cols.items():
                if k in cols:
                    raise real_pl.exceptions.DuplicateError(k)
                cols[k] = c
        out = cls(cols, present=items[0].present)
        out._errors = [e for it in items for e in it._errors]
        return out
    if how not in ("vertical", "vertical_relaxed"):
        raise ModelGap(f"concat how={how}")
    names = list(items[0].cols)
    for it in items[1:]:
        if list(it.cols) != names:
            raise real_pl.exceptions.ShapeError("unable to vstack, column names don't match")
    cols = {}
    for k in names:
        dts = [it.cols[k].dtype for it in items]
        if any(d != dts[0] for d in dts):
            raise real_pl.exceptions.SchemaError(f"type {dts[1]} is incompatible with expected type {dts[0]}")
        parts = [it.cols[k] for it in items]
        has_nan = any(p.nans is not None for p in parts)
        rendered = {p.rendered for p in parts if p.rendered}
        cols[k] = Col([v for p in parts for v in _unify(p, parts)], [n for p in parts for n in p.nulls], dts[0],
                      [p.nan(i) for p in parts for i in range(len(p))] if has_nan else None, rendered=(rendered.pop() if len(rendered) == 1 else ("mixed" if rendered else None)))
    out = cls(cols, present=[p for it in items for p in it.present])
    out._errors = [e for it in items for e in it._errors]
    return out


def _unify(p, parts):
    return p.vals


class _DataFrameFactory:
    """pl.DataFrame / pl.LazyFrame as seen by pandera in symbolic mode: class for isinstance, constructor for data"""


class PlProxy:
    """stand-in for the module global `pl` of pandera's polars modules"""

    def __getattr__(self, name):
        if MODE.sym and name in _OVERRIDES:
            return _OVERRIDES[name]
        return getattr(real_pl, name)


def _series_ctor(*a, **kw):
    vals = a[-1] if a else kw.get("values")
    if isinstance(vals, _Rows):  # a struct column made of the rows of a frame
        fr = vals.frame
        n = len(fr.present)
        return Series("", Col([z3.StringVal("<struct>")] * n, [F] * n, real_pl.String, rendered="struct"), fr.present)
    raise ModelGap("pl.Series constructor")


_OVERRIDES = {"col": _ColNS(), "lit": lit, "len": length, "count": length, "fold": fold, "concat": concat, "all_horizontal": all_horizontal, "LazyFrame": LazyFrame,
              "DataFrame": DataFrame, "Expr": Expr, "Series": _series_ctor}
PROXY = PlProxy()
REPORT = {}
_installed = False


def install():
    """rebind, by identity, every module global of pandera's polars modules that IS the real polars module; register the
    real polars back ends for the shim LazyFrame"""
    global _installed
    if _installed:
        return REPORT
    _installed = True
    import importlib

    import pandera.polars  # noqa: F401  (loads api + back ends)
    from pandera.backends.polars.register import register_polars_backends

    register_polars_backends()
    for m in ("pandera.api.polars.container", "pandera.api.polars.components", "pandera.api.polars.utils", "pandera.api.polars.model",
              "pandera.backends.polars.base", "pandera.backends.polars.container", "pandera.backends.polars.components",
              "pandera.backends.polars.checks", "pandera.backends.polars.builtin_checks", "pandera.engines.polars_engine"):
        importlib.import_module(m)
    n = 0
    for mname, mod in list(sys.modules.items()):
        if mod is None or not mname.startswith("pandera"):
            continue
        if mname.startswith("pandera.api.polars.types") or mname.startswith("pandera.typing"):
            continue
        for k, val in list(vars(mod).items()):
            if val is real_pl:
                setattr(mod, k, PROXY)
                n += 1
    if n == 0:
        raise RuntimeError("identity patch found no polars module global in pandera")
    from pandera.api.checks import Check
    from pandera.api.polars.components import Column
    from pandera.api.polars.container import DataFrameSchema
    from pandera.backends.polars.checks import PolarsCheckBackend
    from pandera.backends.polars.components import ColumnBackend
    from pandera.backends.polars.container import DataFrameSchemaBackend

    DataFrameSchema.register_backend(LazyFrame, DataFrameSchemaBackend)
    Column.register_backend(LazyFrame, ColumnBackend)
    Check.register_backend(LazyFrame, PolarsCheckBackend)
    REPORT.update(pl_globals=n)
    return REPORT
