"""C07 sub-model 3 — lazily filled shared registries and caches at cold start.

Runs in a FRESH interpreter (`python -m coldreg trace|replay ...`): before the first validation of the process every plain
dict / set / list that is a module-level or class-level attribute of a loaded `pandera.*` module is replaced, by identity, by a
traced subclass (BACKEND_REGISTRY of schemas and checks, MODEL_CACHE, ... and whatever container a change adds).
`trace` runs ONE call alone and prints its sequence of container operations; `replay` runs two calls on OS threads under a
deterministic scheduler that switches threads at exactly those operations, and prints each call's outcome.  The SMT model over
the traces lives in props/c07.py (bmc_rw); this module only observes and forces."""
from __future__ import annotations

import json
import sys
import threading
import warnings

warnings.filterwarnings("ignore")

CALLS = {
    "pd.frame": "import pandas as pd, pandera as pa\nS = pa.DataFrameSchema({'a': pa.Column(int, pa.Check.gt(0))})\nD = pd.DataFrame({'a': [1, 2]})\ncall = lambda: S.validate(D)",
    "pd.frame2": "import pandas as pd, pandera as pa\nS = pa.DataFrameSchema({'b': pa.Column(float, pa.Check.le(5.0))}, index=pa.Index(int))\nD = pd.DataFrame({'b': [1.0]})\ncall = lambda: S.validate(D)",
    "pd.series": "import pandas as pd, pandera as pa\nS = pa.SeriesSchema(int, pa.Check.ge(0))\nD = pd.Series([1, 2])\ncall = lambda: S.validate(D)",
    "pd.model": "import pandas as pd, pandera as pa\nclass M(pa.DataFrameModel):\n    a: int = pa.Field(gt=0)\nD = pd.DataFrame({'a': [1, 2]})\ncall = lambda: M.validate(D)",
    "pd.model_same": "import pandas as pd, pandera as pa\nclass M(pa.DataFrameModel):\n    a: int = pa.Field(gt=0)\nD = pd.DataFrame({'a': [1, 2]})\ncall = lambda: M.validate(D)",
    "pl.frame": "import polars as pl, pandera.polars as pa\nS = pa.DataFrameSchema({'a': pa.Column(int, pa.Check.gt(0))})\nD = pl.DataFrame({'a': [1, 2]})\ncall = lambda: S.validate(D)",
}

EVENTS = []          # (thread name, kind 'r'|'w', location, value key)
ON_OP = [None]       # scheduler hook
ARMED = [False]


def _key(x):
    import re

    try:
        return re.sub(r" at 0x[0-9a-f]+", "", repr(x))[:160]  # object addresses differ between processes
    except Exception:  # noqa: BLE001
        return "<?>"


def _ev(kind, cname, key, val):
    if not ARMED[0]:
        return
    me = threading.current_thread().name
    hook = ON_OP[0]
    if hook is not None:
        hook(me)
    EVENTS.append((me, kind, f"{cname}[{_key(key)}]", val))


def _mk_traced(cname):
    MISSING = "<absent>"

    class TDict(dict):
        def __getitem__(self, k):
            _ev("r", cname, k, _key(dict.get(self, k, MISSING)))
            return dict.__getitem__(self, k)

        def get(self, k, d=None):
            _ev("r", cname, k, _key(dict.get(self, k, MISSING)))
            return dict.get(self, k, d)

        def __contains__(self, k):
            _ev("r", cname, k, _key(dict.get(self, k, MISSING)))
            return dict.__contains__(self, k)

        def __setitem__(self, k, v):
            _ev("w", cname, k, _key(v))
            dict.__setitem__(self, k, v)

        def setdefault(self, k, d=None):
            _ev("r", cname, k, _key(dict.get(self, k, MISSING)))
            if not dict.__contains__(self, k):
                _ev("w", cname, k, _key(d))
            return dict.setdefault(self, k, d)

        def pop(self, k, *a):
            _ev("r", cname, k, _key(dict.get(self, k, MISSING)))
            _ev("w", cname, k, MISSING)
            return dict.pop(self, k, *a)

        def __delitem__(self, k):
            _ev("w", cname, k, MISSING)
            dict.__delitem__(self, k)

    class TSet(set):
        def __contains__(self, k):
            _ev("r", cname, k, "in" if set.__contains__(self, k) else MISSING)
            return set.__contains__(self, k)

        def add(self, k):
            _ev("w", cname, k, "in")
            set.add(self, k)

        def discard(self, k):
            _ev("w", cname, k, MISSING)
            set.discard(self, k)

        def remove(self, k):
            _ev("w", cname, k, MISSING)
            set.remove(self, k)

    class TList(list):
        def append(self, x):
            _ev("w", cname, "*", "len=%d" % (len(self) + 1))
            list.append(self, x)

        def __contains__(self, x):
            _ev("r", cname, x, "in" if list.__contains__(self, x) else MISSING)
            return list.__contains__(self, x)

    return TDict, TSet, TList


def instrument():
    """replace, by identity, every plain dict/set/list attribute of pandera modules and of classes defined in them"""
    import inspect

    mods = [(n, m) for n, m in list(sys.modules.items()) if m is not None and (n == "pandera" or n.startswith("pandera."))]
    found = {}
    owners = []
    for mname, mod in mods:
        for k, val in list(vars(mod).items()):
            if k.startswith("__"):
                continue
            if type(val) in (dict, set, list) and k.strip("_").isupper():
                found.setdefault(id(val), (f"{mname}.{k}", val))
                owners.append((mod, k, id(val)))
            if inspect.isclass(val) and getattr(val, "__module__", "").startswith("pandera"):
                for ck, cval in list(vars(val).items()):
                    if ck.startswith("__") or ck.endswith("_") or ck in ("_field_defaults", "TO_STRING_KEYS"):
                        continue  # enum / namedtuple internals, constants
                    if type(cval) in (dict, set, list):
                        found.setdefault(id(cval), (f"{val.__module__}.{val.__qualname__}.{ck}", cval))
                        owners.append((val, ck, id(cval)))
    repl = {}
    for oid, (cname, val) in found.items():
        TDict, TSet, TList = _mk_traced(cname)
        repl[oid] = TDict(val) if type(val) is dict else TSet(val) if type(val) is set else TList(val)
    n = 0
    for owner, k, oid in owners:
        try:
            setattr(owner, k, repl[oid])
            n += 1
        except (AttributeError, TypeError):
            pass
    return n, sorted(c for c, _ in found.values())


def outcome_of(f):
    try:
        f()
        return "returned"
    except Exception as e:  # noqa: BLE001
        return type(e).__name__


def _load(names):
    import pandera  # noqa: F401  (cold: nothing validated yet)
    import pandera.polars  # noqa: F401

    calls = {}
    for i, nm in enumerate(names):
        ns = {}
        exec(CALLS[nm], ns)  # noqa: S102 - fixed call definitions of this module
        calls[f"T{i + 1}"] = ns["call"]
    return calls


def main():
    mode = sys.argv[1]
    if mode == "trace":
        calls = _load([sys.argv[2]])
        n, names = instrument()
        ARMED[0] = True
        out = outcome_of(calls["T1"])
        ARMED[0] = False
        print(json.dumps(dict(outcome=out, events=[(k, l, v) for _, k, l, v in EVENTS], instrumented=n, containers=names)))
        return 0
    if mode == "replay":
        names, schedule = sys.argv[2].split(","), sys.argv[3].split(",")
        calls = _load(names)
        instrument()
        cv = threading.Condition()
        state = dict(pos=0, done=set())

        def hook(me):
            if me not in calls:
                return
            with cv:
                while state["pos"] < len(schedule) and schedule[state["pos"]] != me:
                    if schedule[state["pos"]] in state["done"]:
                        state["pos"] += 1
                        cv.notify_all()
                        continue
                    if not cv.wait(timeout=0.3):  # the thread whose turn it is may be blocked on a lock we hold (imports): go on
                        break
                if state["pos"] < len(schedule) and schedule[state["pos"]] == me:
                    state["pos"] += 1
                cv.notify_all()

        ON_OP[0] = hook
        res = {}

        def body(t):
            res[t] = outcome_of(calls[t])
            with cv:
                state["done"].add(t)
                cv.notify_all()

        ARMED[0] = True
        ths = [threading.Thread(target=body, args=(t,), name=t) for t in calls]
        [t.start() for t in ths]
        [t.join(180) for t in ths]
        ARMED[0] = False
        print(json.dumps(dict(outcomes=res)))
        return 0
    return 2


if __name__ == "__main__":
    sys.exit(main())
