"""symstrat — hypothesis strategies as constraint collectors (DESIGN.md 2.6).

The globals `st`, `npst`, `re` of pandera/strategies/pandas_strategies.py are replaced by objects that implement each
used constructor by its DOCUMENTED CONTRACT: a strategy is a fresh element variable plus the constraints every drawn
value satisfies; `.filter(p)` evaluates the REAL predicate on the symbolic element."""
import re as real_re

import numpy as np
import z3

from symframe import regex_language
from symx import ModelGap, SymBool, SymInt, SymReal, SymStr, eng, lift_bool, lift_num, lift_str

_ctr = [0]


def reset():
    _ctr[0] = 0


def fresh(sort):
    _ctr[0] += 1
    return z3.Const(f"el{_ctr[0]}", sort)


def wrap(x):
    if z3.is_int(x):
        return SymInt(x)
    if z3.is_real(x):
        return SymReal(x)
    if z3.is_string(x):
        return SymStr(x)
    return SymBool(x)


class SymStrategy:
    def __init__(self, x, cons, note="", invalid=None):
        self.x, self.cons, self.note, self.invalid = x, list(cons), note, invalid

    def validate(self):
        """hypothesis validates strategy arguments lazily, on the first draw"""
        if self.invalid is not None:
            from hypothesis.errors import InvalidArgument

            raise InvalidArgument(self.invalid)

    def filter(self, pred):
        if self.invalid is not None:
            return self
        r = pred(wrap(self.x))
        if isinstance(r, SymBool):
            c = r.z
        elif r is None:
            c = z3.BoolVal(False)  # re.Pattern.search-style predicates return None for "no match"
        else:
            c = z3.BoolVal(bool(r))
        return SymStrategy(self.x, self.cons + [c], self.note)

    def map(self, f):
        if self.invalid is not None:
            return self
        if isinstance(f, type) and issubclass(f, np.generic):
            return self  # C boundary stub: np.<scalar type>(x) is the identity for in-range values of that type
        raise ModelGap("strategy.map(non-numpy-scalar)")

    def example(self):
        raise ModelGap("example() on a symbolic strategy")


def _sort_of_dtype(dt):
    k = np.dtype(dt).kind
    if k in "iu":
        return z3.IntSort()
    if k == "f":
        return z3.RealSort()
    if k in "US":
        return z3.StringSort()
    if k == "b":
        return z3.BoolSort()
    raise ModelGap(f"strategy element of dtype {dt}")


def _coerce_to(x, v):
    """term of the value v in the sort of x"""
    if z3.is_string(x):
        return lift_str(v)
    t = lift_num(v)
    if z3.is_int(x) and z3.is_real(t):
        raise ModelGap("real bound on an integer strategy")
    if z3.is_real(x) and z3.is_int(t):
        return z3.ToReal(t)
    return t


class ST:
    @staticmethod
    def just(v):
        if isinstance(v, (SymInt, SymReal, SymStr)):
            x = fresh(v.z.sort())
            return SymStrategy(x, [x == v.z], "just")
        if isinstance(v, str):
            x = fresh(z3.StringSort())
            return SymStrategy(x, [x == z3.StringVal(v)], "just")
        t = lift_num(v)
        x = fresh(t.sort())
        return SymStrategy(x, [x == t], "just")

    @staticmethod
    def sampled_from(vs):
        vs = list(vs)
        t0 = lift_str(vs[0]) if isinstance(vs[0], str) else lift_num(vs[0])
        x = fresh(t0.sort())
        return SymStrategy(x, [z3.Or(*[x == _coerce_to(x, v) for v in vs])], "sampled_from")

    @staticmethod
    def text(alphabet=None, min_size=0, max_size=None):
        x = fresh(z3.StringSort())
        if min_size is None or isinstance(min_size, bool) or not isinstance(min_size, (int, SymInt)):
            return SymStrategy(x, [], "text", invalid=f"min_size={min_size!r} must be an integer")
        c = [z3.Length(x) >= lift_num(min_size)]
        if max_size is not None:
            c.append(z3.Length(x) <= lift_num(max_size))
        return SymStrategy(x, c, "text")

    @staticmethod
    def from_regex(pattern, fullmatch=False, alphabet=None):
        pat = pattern.pattern if hasattr(pattern, "pattern") else pattern
        x = fresh(z3.StringSort())
        return SymStrategy(x, [z3.InRe(x, regex_language(_strip_anchors_az(pat), "fullmatch" if fullmatch else "search"))], "from_regex")

    @staticmethod
    def integers(min_value=None, max_value=None):
        x = fresh(z3.IntSort())
        c = []
        if min_value is not None:
            c.append(x >= lift_num(min_value))
        if max_value is not None:
            c.append(x <= lift_num(max_value))
        return SymStrategy(x, c, "integers")

    @staticmethod
    def floats(min_value=None, max_value=None, allow_nan=None, allow_infinity=None, exclude_min=False, exclude_max=False, width=64):
        x = fresh(z3.RealSort())
        return SymStrategy(x, _bounds(x, min_value, max_value, exclude_min, exclude_max), "floats")

    @staticmethod
    def booleans():
        x = fresh(z3.BoolSort())
        return SymStrategy(x, [], "booleans")

    def __getattr__(self, name):
        raise ModelGap(f"hypothesis.strategies.{name} not modelled")


def _strip_anchors_az(pat):
    """\\A and \\Z are start/end-of-string anchors: the regex translator knows ^ and $"""
    if pat.startswith(r"\A"):
        pat = "^" + pat[2:]
    if pat.endswith(r"\Z"):
        pat = pat[:-2] + "$"
    return pat


def _bounds(x, min_value, max_value, exclude_min, exclude_max):
    c = []
    if min_value is not None:
        lo = _coerce_to(x, min_value)
        c.append(x > lo if exclude_min else x >= lo)
    if max_value is not None:
        hi = _coerce_to(x, max_value)
        c.append(x < hi if exclude_max else x <= hi)
    return c


class NPST:
    @staticmethod
    def from_dtype(dt, allow_nan=None, allow_infinity=None, min_value=None, max_value=None, exclude_min=None, exclude_max=None, **kw):
        """hypothesis.extra.numpy.from_dtype: values of the dtype within [min_value, max_value] (bounds excluded on request;
        exclude_* are only legal for floating dtypes)"""
        sort = _sort_of_dtype(dt)
        x = fresh(sort)
        if sort == z3.StringSort():
            return SymStrategy(x, [], "from_dtype(str)")
        if np.dtype(dt).kind in "iu":
            # documented: from_dtype forwards only min_value/max_value to st.integers; other keywords are ignored for integer dtypes
            exclude_min = exclude_max = False
        c = _bounds(x, min_value, max_value, bool(exclude_min), bool(exclude_max))
        info = np.iinfo(dt) if np.dtype(dt).kind in "iu" else None
        if info is not None:
            c += [x >= int(info.min), x <= int(info.max)]
        return SymStrategy(x, c, "from_dtype")

    def __getattr__(self, name):
        raise ModelGap(f"hypothesis.extra.numpy.{name} not modelled")


class _Pattern:
    def __init__(self, pattern, flags=0):
        self.pattern = pattern
        self._real = real_re.compile(pattern, flags)

    def _m(self, s, mode):
        if isinstance(s, SymStr):
            return SymBool(z3.InRe(s.z, regex_language(_strip_anchors_az(self.pattern), mode)))
        return getattr(self._real, mode)(s)

    def fullmatch(self, s):
        return self._m(s, "fullmatch")

    def search(self, s):
        return self._m(s, "search")

    def match(self, s):
        return self._m(s, "match")


class RE:
    def __getattr__(self, name):
        return getattr(real_re, name)

    @staticmethod
    def compile(pattern, flags=0):
        return _Pattern(pattern, flags)


# ------------------------------------------------------------------------------------------------ series level
def _full_series(vals, nulls, name, dtype):
    import symframe

    return symframe.Series(vals, nulls=nulls, name=name, dtype=dtype)


class SymSeriesStrategy:
    """hypothesis.extra.pandas.series(...) by its documented contract: a series of `size` elements, each drawn from the
    elements strategy (independently; pairwise distinct when unique=True); .filter(p) runs the REAL predicate on the symbolic
    series, .map(f) applies the REAL function to it"""

    def __init__(self, series, cons):
        self.series, self.cons = series, list(cons)

    def filter(self, pred):
        r = pred(self.series)
        c = r.z if isinstance(r, SymBool) else z3.BoolVal(bool(r))
        return SymSeriesStrategy(self.series, self.cons + [c])

    def map(self, f):
        return SymSeriesStrategy(f(self.series), self.cons)

    def validate(self):
        return None


class PDST:
    @staticmethod
    def range_indexes(min_size=0, max_size=None):
        if max_size is None or min_size != max_size:
            raise ModelGap("range_indexes without a fixed size")
        return ("range_index", int(max_size))

    @staticmethod
    def series(elements=None, dtype=None, index=None, unique=False, **kw):
        if not isinstance(elements, SymStrategy) or not isinstance(index, tuple):
            raise ModelGap("pdst.series arguments")
        elements.validate()
        n = index[1]
        xs, cons = [], []
        for i in range(n):
            xi = fresh(elements.x.sort())
            xs.append(xi)
            cons += [z3.substitute(c, (elements.x, xi)) for c in elements.cons]
        if unique and n > 1:
            cons.append(z3.Distinct(*xs))
        dt = np.dtype(dtype) if dtype is not None else np.dtype(object)
        if dt.kind in "US":
            dt = np.dtype(object)
        return SymSeriesStrategy(_full_series(xs, [z3.BoolVal(False)] * n, None, dt), cons)

    def __getattr__(self, name):
        raise ModelGap(f"hypothesis.extra.pandas.{name} not modelled")


def null_field_masks_stub(strategy, unique=False):
    """pandera.strategies.pandas_strategies.null_field_masks by its documented contract: every element of the drawn series may
    independently be replaced by a null (at most one element when the values have to be unique)"""
    if not isinstance(strategy, SymSeriesStrategy):
        raise ModelGap("null_field_masks of a non-series strategy")
    s = strategy.series
    n = len(s.vals)
    masks = [z3.Bool(f"nullmask{i}") for i in range(n)]
    out = s._new(nulls=[z3.Or(a, m) for a, m in zip(s.nulls, masks)])
    extra = []
    if isinstance(unique, SymBool):
        extra = [z3.Implies(unique.z, z3.AtMost(*masks, 1))] if n > 1 else []
    elif unique and n > 1:
        extra = [z3.AtMost(*masks, 1)]
    return SymSeriesStrategy(out, strategy.cons + extra)


# ------------------------------------------------------------------------------------------------ dataframe level
class SymColumn:
    """hypothesis.extra.pandas.column(name, elements, dtype, unique): a description, consumed by data_frames"""

    def __init__(self, name, elements, dtype, unique):
        self.name, self.elements, self.dtype, self.unique = name, elements, dtype, unique


class SymFrameStrategy:
    """hypothesis.extra.pandas.data_frames(columns, rows, index) by its documented contract: `size` rows; every cell of a column
    is drawn from that column's elements strategy (from the `rows` strategy's entry for the column when rows is given); the
    cells of a unique column are pairwise distinct.  .filter(p) / .map(f) run the REAL function on the symbolic frame."""

    def __init__(self, frame, cons):
        self.frame, self.cons = frame, list(cons)

    def filter(self, pred):
        r = pred(self.frame)
        c = r.z if isinstance(r, SymBool) else z3.BoolVal(bool(r))
        return SymFrameStrategy(self.frame, self.cons + [c])

    def map(self, f):
        return SymFrameStrategy(f(self.frame), self.cons)

    def validate(self):
        return None


def _pdst_column(name=None, elements=None, dtype=None, fill=None, unique=False):
    if not isinstance(elements, SymStrategy):
        raise ModelGap("pdst.column without a modelled elements strategy")
    return SymColumn(name, elements, dtype, unique)


def _pdst_data_frames(columns=None, rows=None, index=None):
    import symframe

    if not isinstance(index, tuple):
        raise ModelGap("data_frames without a fixed-size range index")
    n = index[1]
    cols, cons = [], []
    for c in columns or []:
        src = c.elements
        if rows is not None:
            if not isinstance(rows, dict) or c.name not in rows:
                raise ModelGap("rows strategy")
            src = rows[c.name]
        src.validate()
        xs = []
        for _ in range(n):
            xi = fresh(src.x.sort())
            xs.append(xi)
            cons += [z3.substitute(k, (src.x, xi)) for k in src.cons]
        if c.unique and n > 1:
            cons.append(z3.Distinct(*xs))
        dt = np.dtype(c.dtype) if c.dtype is not None else np.dtype(object)
        if dt.kind in "US":
            dt = np.dtype(object)
        cols.append((c.name, symframe.Series(xs, nulls=[z3.BoolVal(False)] * n, name=c.name, dtype=dt)))
    return SymFrameStrategy(symframe.DataFrame(cols), cons)


PDST.column = staticmethod(_pdst_column)
PDST.data_frames = staticmethod(_pdst_data_frames)
ST.fixed_dictionaries = staticmethod(lambda mapping: dict(mapping))


def composite_stub(fn):
    """hypothesis.strategies.composite by its contract: the decorated function builds a value from draws; draw(s) hands out the
    (symbolic) value of s and the value's constraints are accumulated"""

    def make(*a, **kw):
        acc = []

        def draw(s):
            if isinstance(s, (SymFrameStrategy, SymSeriesStrategy)):
                acc.extend(s.cons)
                return s.frame if isinstance(s, SymFrameStrategy) else s.series
            if isinstance(s, SymStrategy):
                s.validate()
                acc.extend(s.cons)
                return wrap(s.x)
            raise ModelGap(f"draw from {type(s).__name__}")

        out = fn(draw, *a, **kw)
        import symframe

        if isinstance(out, symframe.DataFrame):
            return SymFrameStrategy(out, acc)
        if isinstance(out, symframe.Series):
            return SymSeriesStrategy(out, acc)
        raise ModelGap("composite result")

    return make


def null_dataframe_masks_stub(strategy, nullable_columns, unique_columns=None):
    """pandera.strategies.pandas_strategies.null_dataframe_masks by its documented contract: every cell of a nullable column may
    independently be replaced by a null (at most one cell per column that has to be unique)"""
    import symframe

    if not isinstance(strategy, SymFrameStrategy):
        raise ModelGap("null_dataframe_masks of a non-frame strategy")
    fr = strategy.frame
    n = len(fr.present)
    cols, extra = [], []
    for k, c in fr._cols:
        if nullable_columns.get(k):
            masks = [z3.Bool(f"nullmask_{k}_{i}") for i in range(n)]
            c = c._new(nulls=[z3.Or(a, m) for a, m in zip(c.nulls, masks)])
            if unique_columns and unique_columns.get(k) and n > 1:
                extra.append(z3.AtMost(*masks, 1))
        cols.append((k, c))
    return SymFrameStrategy(symframe.DataFrame(cols, present=fr.present, index=fr.index.copy()), strategy.cons + extra)
