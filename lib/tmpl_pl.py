"""Polars templates (stage 2 of DESIGN.md 2.3): the REAL pandera polars API and back ends run on a provider-made frame
(sympl shim in symbolic mode, real polars in the concrete replay).  One template returns the labelled assertions of
several properties; the property modules pick theirs (tmpl.pick)."""
from __future__ import annotations

import warnings
from typing import Optional as Opt_  # noqa: F401  (annotations of model classes are resolved in this module's namespace)

import z3

from pvinstall import install

install()
import sympl  # noqa: E402

sympl.install()
import pandera.polars as ppl  # noqa: E402
import polars as real_pl  # noqa: E402
from pandera import Check  # noqa: E402
from pandera.config import ValidationDepth, config_context  # noqa: E402

import pvharness as H  # noqa: E402
import pvoracle as O  # noqa: E402

PLT = {"int": real_pl.Int64, "float": real_pl.Float64, "str": real_pl.String, "bool": real_pl.Boolean}
KINDS = {"a": "float", "b": "int", "x": "int", "s": "str"}
T, F = z3.BoolVal(True), z3.BoolVal(False)


def channel_ok(o):
    return not o["kind"].startswith("leak:")


def is_lazy(x):
    return isinstance(x, (sympl.LazyFrame, real_pl.LazyFrame))


def is_eager(x):
    return isinstance(x, (sympl.DataFrame, real_pl.DataFrame))


def same_kind(a, b):
    return (is_lazy(a) and is_lazy(b)) or (is_eager(a) and is_eager(b))


def pl_snapshot(obj):
    """frames are persistent values; the snapshot is the list of column terms / a clone of the real frame"""
    if isinstance(obj, (sympl.LazyFrame, sympl.DataFrame)):
        return ("S", [(k, list(c.vals), list(c.nulls), None if c.nans is None else list(c.nans), str(c.dtype)) for k, c in obj.cols.items()], list(obj.present), type(obj))
    return ("R", obj.clone(), type(obj))


def _cell_eq(x, nx, nanx, y, ny, nany):
    nanx = F if nanx is None else nanx
    nany = F if nany is None else nany
    if z3.is_expr(x) and z3.is_expr(y) and x.sort() != y.sort():
        if not ((z3.is_int(x) or z3.is_real(x)) and (z3.is_int(y) or z3.is_real(y))):
            return F
    return z3.And(nx == ny, z3.Or(nx, z3.And(nanx == nany, z3.Or(nanx, x == y))))


def pl_equal(v, obj, snap, same_class=True, dtypes=True):
    """obj has the same columns (order, dtypes), the same rows in the same order and the same cells as the snapshot"""
    if snap[0] == "R":
        ref = snap[1]
        if same_class and type(obj) is not snap[2]:
            return False
        a = obj.collect() if isinstance(obj, real_pl.LazyFrame) else obj
        b = ref.collect() if isinstance(ref, real_pl.LazyFrame) else ref
        if a.columns != b.columns or (dtypes and a.dtypes != b.dtypes):
            return False
        return bool(a.equals(b, null_equal=True)) if dtypes else H.jsonable(H.snap_pl(a)["rows"]) == H.jsonable(H.snap_pl(b)["rows"])
    _, cols, present, cls = snap
    if same_class and type(obj) is not cls:
        return v.holds(False)
    ocols = [(k, c.vals, c.nulls, c.nans, str(c.dtype)) for k, c in obj.cols.items()]
    if [c[0] for c in ocols] != [c[0] for c in cols] or (dtypes and [c[4] for c in ocols] != [c[4] for c in cols]):
        return v.holds(False)
    if len(obj.present) != len(present):
        return v.holds(False)  # row-wise comparison of frames with different slot layouts is not needed by the templates
    terms = [zor_(obj._errors) == F] if obj._errors else []
    for i in range(len(present)):
        terms.append(obj.present[i] == present[i])
        row = [_cell_eq(xs[i], ns[i], None if nn is None else nn[i], ys[i], ms[i], None if mm is None else mm[i])
               for (_, xs, ns, nn, _), (_, ys, ms, mm, _) in zip(ocols, cols)]
        terms.append(z3.Implies(present[i], z3.And(*row) if row else T))
    return v.holds(z3.And(*terms) if terms else T)


def zor_(xs):
    xs = list(xs)
    return z3.Or(*xs) if xs else F


def strip_parsing(schema):
    """the same schema with every parsing option switched off (C03)"""
    cols = {}
    for k, c in schema.columns.items():
        cols[k] = ppl.Column(c.dtype, checks=c.checks, nullable=c.nullable, unique=c.unique, required=c.required, regex=c.regex, name=c.name)
    return ppl.DataFrameSchema(cols, checks=schema.checks, strict=(True if schema.strict == "filter" else schema.strict), ordered=schema.ordered,
                               unique=schema.unique)


# ------------------------------------------------------------------ DataFrameSchema on a polars frame
def pl_frame_case(v, arrangement, N, opts):
    """polars DataFrameSchema {a: Float64 column, b: Int64 column} over a column arrangement.
    opts: lazyframe (bool: LazyFrame input), lazy (bool), strict, ordered, coerce (None|'col'|'schema'), a_kind ('float'|'int'),
    default (bool), add_missing (bool), drop (bool), unique (joint), nan (bool: float cells may be NaN), depth (None|'SO'|'DO'|'SAD'),
    ina (bool)"""
    a_kind = opts.get("a_kind", "float")
    kinds = dict(KINDS, a=a_kind)
    arr = [(c, kinds[c]) for c in arrangement]
    lazyframe = bool(opts.get("lazyframe"))
    lazy = bool(opts.get("lazy")) or bool(opts.get("drop"))
    nan = bool(opts.get("nan"))
    df = v.plframe(arr, N, lazy=lazyframe, nan=nan, rid=bool(opts.get("drop")))
    snap = pl_snapshot(df)
    lo = v.int("aA")
    nullable, unique_a = v.bool("nullable"), v.bool("unique_a")
    default = v.int("dflt") if opts.get("default") else None
    coerce = opts.get("coerce")
    req_b = True if opts.get("b_required_concrete", True) else v.bool("req_b")
    ca = O.CheckSpec(opts.get("check_a", "ge"), opts.get("ina", True), a=lo, b=lo)
    cb = O.CheckSpec("isin", True, set=[1, 2, 3])
    b_default = 1 if opts.get("add_missing") else None
    if opts.get("expr_default"):
        # the default is a polars expression whose own dtype (Int32) is narrower than the declared one: the added column has the
        # declared dtype.  (A WIDER expression, e.g. pl.lit(1.0) for an Int64 column, upcasts the column when the default fills
        # nulls on the unchanged tree: observed, an unusual declaration, not asserted.)
        from sympl import PROXY as _plx  # the namespace pandera's own polars code sees (shim or real polars)

        b_default = _plx.lit(1, dtype=real_pl.Int32)
    extra_checks = []
    if opts.get("scalar_check"):  # a check whose output is one boolean for the whole column, next to the row-level check
        flag_s = v.bool("scalar_ok")
        extra_checks.append(Check(lambda data: bool(flag_s), name="scalar_check"))
    with warnings.catch_warnings():
        warnings.simplefilter("ignore")
        schema = ppl.DataFrameSchema(
            {"a": ppl.Column(float, checks=[ca.build(Check)] + extra_checks, nullable=nullable, unique=unique_a, coerce=(coerce == "col"),
                             default=(None if default is None else default)),
             "b": ppl.Column(int, checks=[cb.build(Check)], required=req_b, default=b_default),
             **({"_rid": ppl.Column(int)} if opts.get("drop") else {})},  # row identifiers are a declared column: they survive filter/add_missing
            strict=opts.get("strict", False), ordered=bool(opts.get("ordered")), coerce=(coerce == "schema"),
            add_missing_columns=bool(opts.get("add_missing")), unique=opts.get("unique"), drop_invalid_rows=bool(opts.get("drop")))
    depth = {"SO": ValidationDepth.SCHEMA_ONLY, "DO": ValidationDepth.DATA_ONLY, "SAD": ValidationDepth.SCHEMA_AND_DATA}.get(opts.get("depth"))

    def run(obj, sch=schema, lz=lazy):
        if depth is not None:
            with config_context(validation_depth=depth):
                return sch.validate(obj, lazy=lz)
        return sch.validate(obj, lazy=lz)

    import tmpl

    fp0, cfg0 = tmpl.fingerprint(schema), tmpl.config_fingerprint()
    o = H.outcome(lambda: run(df))
    asserts = [("channel", v.holds(channel_ok(o))), ("input_unchanged", pl_equal(v, df, snap)),
               ("schema_unchanged", v.holds(tmpl.fingerprint(schema) == fp0)), ("config_unchanged", v.holds(tmpl.config_fingerprint() == cfg0))]
    facts = dict(kind=o["kind"], reason=o.get("reason"), _msg=o.get("msg"), container="LazyFrame" if lazyframe else "DataFrame")
    parsing = bool(coerce or opts.get("default") or opts.get("add_missing") or opts.get("strict") == "filter" or opts.get("drop"))
    if opts.get("oracle") and not parsing and not nan:
        # documented semantics (the pandas oracle is backend neutral): which part applies is decided by the validation depth —
        # explicit, or by default SCHEMA_ONLY for a LazyFrame and SCHEMA_AND_DATA for a DataFrame
        fa = O.FieldSpec("float", nullable=nullable, unique=unique_a, checks=[ca])
        fb = O.FieldSpec("int", checks=[cb], required=True)
        spec = O.FrameSpec({"a": fa, "b": fb}, strict=opts.get("strict", False), ordered=bool(opts.get("ordered")), unique=opts.get("unique"))
        cells = {c: v.cells(f"{c}_", k, N, True) for c, k in arr}
        parts = []
        for req in (True, False):
            fb.required = req
            ok, _ = spec.label_level_ok(arr)
            viol = spec.row_violations(v, [(c, k) for c, k in arr if k == {"a": "float", "b": "int"}.get(c, k)], cells)
            parts.append((z3.BoolVal(ok), z3.Not(zor_(t for ts in viol.values() for t in ts))))
        rq = v.z(req_b)
        schema_ok, data_ok = z3.If(rq, parts[0][0], parts[1][0]), z3.If(rq, parts[0][1], parts[1][1])
        eff = opts.get("depth") or ("SO" if lazyframe else "SAD")
        oracle = {"SO": schema_ok, "DO": data_ok, "SAD": z3.And(schema_ok, data_ok)}[eff]
        claim = v.iff(o["kind"] == "accept", oracle)
        if eff == "SAD":
            asserts.append(("verdict", claim))
        asserts.append(("depth/" + (eff if opts.get("depth") else ("default_lazyframe_schema_only" if lazyframe else "default_dataframe_full_depth")), claim))
        facts["depth"] = eff
    label_ok = True
    if opts.get("drop") and not nan and not opts.get("add_missing"):
        lspec = O.FrameSpec({"a": O.FieldSpec("float", coerce=bool(coerce)), "b": O.FieldSpec("int", required=True, coerce=(coerce == "schema"))},
                            strict=opts.get("strict", False), ordered=bool(opts.get("ordered")))
        label_ok, why = lspec.label_level_ok(arr)
        if not label_ok:
            # violations that are not attributable to rows (wrong dtype, missing column, column not in schema) are still raised
            asserts.append(("drop/non_row_violation_raised", v.holds(o["kind"] == "SchemaErrors")))
            facts["label_level"] = why
    if opts.get("drop") and not nan and label_ok:
        asserts += drop_asserts(v, o, df, snap, arr, N, dict(nullable=nullable, unique_a=unique_a, lo=lo, ca=ca, cb=cb, joint=opts.get("unique"),
                                                                coerce=coerce, depth_data=(depth is not None or not lazyframe) and opts.get("depth") != "SO"))
    if opts.get("compare_eager") and lazy:
        oe = H.outcome(lambda: run(df, schema, False))
        facts["eager"] = oe["kind"]
        asserts.append(("lazy_eager_agree", v.holds((oe["kind"] == "accept") == (o["kind"] == "accept"))))
        asserts.append(("lazy/channel", v.holds(channel_ok(oe) and oe["kind"] in ("accept", "SchemaError") and o["kind"] in ("accept", "SchemaErrors"))))
        if oe["kind"] == "SchemaError" and o["kind"] == "SchemaErrors":
            key = lambda e: (str(e.reason_code), str(getattr(e.schema, "name", None)))  # noqa: E731
            asserts.append(("eager_error_among_lazy", v.holds(key(oe["exc"]) in [key(x) for x in o["exc"].schema_errors])))
    if o["kind"] == "SchemaErrors":
        from collections import Counter

        exc = o["exc"]
        cnt = Counter(str(x.reason_code).split(".")[-1] for x in exc.schema_errors)
        asserts.append(("report/error_counts", v.holds(dict(cnt) == {str(k).split(".")[-1]: n for k, n in dict(exc.error_counts).items()})))
        if opts.get("compare_eager") and not parsing and not nan and not opts.get("unique") and (depth is not None or not lazyframe) and opts.get("depth") != "SO":
            # exactness of the lazy report: it names every offending (column, row position, value) and no conforming cell
            import tmpl

            fa = O.FieldSpec("float", nullable=nullable, unique=unique_a, checks=[ca])
            fb = O.FieldSpec("int", checks=[cb], required=True)
            rspec = O.FrameSpec({"a": fa, "b": fb})
            present_cols = [(c, k) for c, k in arr if c in ("a", "b") and k == {"a": "float", "b": "int"}[c]]
            cells = {c: v.cells(f"{c}_", k, N, True) for c, k in present_cols}
            viol = rspec.row_violations(v, present_cols, cells)
            if "b" in cells:  # a polars Int64 column can hold nulls: the non-nullable column b reports them
                viol[("b", "nullable")] = [cells["b"][1][i] for i in range(N)]
            positions = [z3.IntVal(i) for i in range(N)]
            fc = exc.failure_cases
            if isinstance(fc, (sympl.DataFrame, sympl.LazyFrame)):
                comp, sound = tmpl.report_exact_terms(v, _FcAdapter(fc), viol, cells, positions)
                asserts.append(("report/complete", v.holds(comp)))
                asserts.append(("report/sound", v.holds(sound)))
            else:
                comp, sound = tmpl.report_exact_real(fc.to_pandas(), v.vals, viol, cells, positions)
                asserts.append(("report/complete", comp))
                asserts.append(("report/sound", sound))
    if o["kind"] == "accept":
        out = o["out"]
        asserts.append(("kind_preserved", v.holds(same_kind(out, df))))
        facts["out_kind"] = H.pl_kind(out) if H._is_pl(out) else type(out).__name__
        if not parsing and H._is_pl(out):
            asserts.append(("output_equals_input", pl_equal(v, out, snap, same_class=False)))
        if H._is_pl(out) and opts.get("fixpoint", True):
            # C03: the returned frame conforms to the schema with all parsing options off, and validating it again is the identity
            osnap = pl_snapshot(out)
            o2 = H.outcome(lambda: run(out, strip_parsing(schema), False))
            asserts.append(("fixpoint_conforms", v.holds(o2["kind"] == "accept")))
            facts["strip"] = o2["kind"]
            facts["strip_reason"] = o2.get("reason") or o2.get("msg")
            o3 = H.outcome(lambda: run(out))
            asserts.append(("fixpoint_accepts_again", v.holds(o3["kind"] == "accept")))
            if o3["kind"] == "accept" and H._is_pl(o3["out"]):
                asserts.append(("fixpoint_identity", pl_equal(v, o3["out"], osnap, same_class=False)))
    return dict(obs=o, asserts=asserts, facts=facts)


class _FcAdapter:
    """a sympl failure-case table seen through the attributes tmpl.report_exact_terms reads from a symframe table"""

    class _C:
        def __init__(self, c):
            self.vals = [(x.as_string() if z3.is_expr(x) and z3.is_string_value(x) else x) for x in c.vals]
            self.nulls = list(c.nulls)

    def __init__(self, fc):
        self.present = list(fc.present)
        self._cols = [(k, _FcAdapter._C(c)) for k, c in fc.cols.items()]


def drop_asserts(v, o, df, snap, arr, N, P):
    """C11 on polars: with drop_invalid_rows the result holds exactly the input rows (by position) on which every row-level
    constraint holds — nullability, uniqueness (polars reports every duplicate), column checks, joint uniqueness."""
    asserts = [("drop/channel", v.holds(channel_ok(o))), ("drop/returns", v.holds(o["kind"] == "accept"))]
    if o["kind"] != "accept" or not H._is_pl(o["out"]):
        return asserts
    out = o["out"]
    kinds = dict(arr)
    cells = {c: v.cells(f"{c}_", k, N, True) for c, k in arr}
    bad = [F] * N
    if P["depth_data"]:
        bad = []
        for i in range(N):
            b = []
            if "a" in cells:
                xa, na = cells["a"]
                dup = zor_(O.eq_cell(xa, na, i, j) for j in range(N) if j != i)
                b += [z3.And(z3.Not(v.z(P["nullable"])), na[i]), z3.And(v.z(P["unique_a"]), dup), z3.And(z3.Not(na[i]), z3.Not(P["ca"].pred(v, xa[i])))]
            if "b" in cells:
                xb, nb = cells["b"]
                b += [nb[i], z3.And(z3.Not(nb[i]), z3.Not(P["cb"].pred(v, xb[i])))]
            if P["joint"]:
                sub = [c for c in P["joint"] if c in cells]
                b.append(zor_(z3.And(*[O.eq_cell(cells[c][0], cells[c][1], i, j) for c in sub]) for j in range(N) if j != i))
            bad.append(z3.Or(*b) if b else F)
    if v.sym:
        if len(out.present) != N:
            return asserts + [("drop/exact_rows", v.holds(False))]
        pres = list(out.present)
        asserts.append(("drop/no_invalid_row_survives", v.holds(z3.And(*[z3.Implies(p, z3.Not(b)) for p, b in zip(pres, bad)]) if N else T)))
        asserts.append(("drop/no_valid_row_dropped", v.holds(z3.And(*[z3.Implies(z3.Not(b), p) for p, b in zip(pres, bad)]) if N else T)))
        # surviving cells equal the input cells (up to the requested coercion), original order: slot-wise by construction
        ok = []
        for k, c in out.cols.items():
            ref = dict((x[0], x) for x in snap[1]).get(k)
            if ref is None:
                continue
            for i in range(N):
                ok.append(z3.Implies(pres[i], _cell_eq(c.vals[i], c.nulls[i], None if c.nans is None else c.nans[i], ref[1][i], ref[2][i], None if ref[3] is None else ref[3][i])))
        asserts.append(("drop/values_unchanged", v.holds(z3.And(*ok) if ok else T)))
    else:
        keep = [not v.vals.term(b) for b in bad]
        odf = out.collect() if isinstance(out, real_pl.LazyFrame) else out
        rids = odf["_rid"].to_list() if "_rid" in odf.columns else []
        asserts.append(("drop/no_invalid_row_survives", all(keep[i] for i in rids)))
        asserts.append(("drop/no_valid_row_dropped", all(i in rids for i in range(N) if keep[i])))
        ref = snap[1].collect() if isinstance(snap[1], real_pl.LazyFrame) else snap[1]
        same = rids == sorted(rids)
        for k in odf.columns:
            if k in ref.columns and same:
                a = [H.norm_val(x) if not (isinstance(x, float) and x != x) else "NaN" for x in odf[k].to_list()]
                b = [H.norm_val(x) if not (isinstance(x, float) and x != x) else "NaN" for x in ref[k].gather(rids).to_list()]
                same = same and a == b
        asserts.append(("drop/values_unchanged", same))
    return asserts


# ------------------------------------------------------------------ Column schema called directly on a polars frame
def pl_column_case(v, N, opts):
    """ppl.Column(...).validate(frame): container kind (C04), channel (C06), verdict at the effective depth"""
    a_kind = "int" if opts.get("coerce") else "float"
    lazyframe = bool(opts.get("lazyframe"))
    # the frame holds other columns as well (an integer one and a text one): a stand-alone Column concerns the column it names
    arr = [("a", a_kind), ("b", "int"), ("s", "str")]
    df = v.plframe(arr, N, lazy=lazyframe)
    snap = pl_snapshot(df)
    lo = v.int("aA")
    nullable, unique_a = v.bool("nullable"), v.bool("unique_a")
    default = v.int("dflt") if opts.get("default") else None
    col = ppl.Column(float, Check.ge(lo), name="a", nullable=nullable, unique=unique_a, coerce=bool(opts.get("coerce")), default=default)
    import tmpl

    cfg0 = tmpl.config_fingerprint()
    o = H.outcome(lambda: col.validate(df, lazy=bool(opts.get("lazy"))))
    asserts = [("channel", v.holds(channel_ok(o))), ("input_unchanged", pl_equal(v, df, snap)), ("config_unchanged", v.holds(tmpl.config_fingerprint() == cfg0))]
    facts = dict(kind=o["kind"], reason=o.get("reason"), _msg=o.get("msg"), container="LazyFrame" if lazyframe else "DataFrame")
    if not lazyframe:
        # a DataFrame is validated at full depth: accepted iff column a satisfies its constraints (after the default filled its nulls)
        xa, na = v.cells("a_", a_kind, N, True)
        R = lambda t: z3.ToReal(t) if z3.is_int(t) else t  # noqa: E731
        filled = default is not None
        nul = [F if filled else na[i] for i in range(N)]
        val = [z3.If(na[i], R(v.z(default)), R(xa[i])) if filled else R(xa[i]) for i in range(N)]
        eq = lambda i, j: z3.Or(z3.And(nul[i], nul[j]), z3.And(z3.Not(nul[i]), z3.Not(nul[j]), val[i] == val[j]))  # noqa: E731
        ok = z3.And(*[z3.And(z3.Or(v.z(nullable), z3.Not(nul[i])), z3.Or(nul[i], val[i] >= R(v.z(lo))),
                             z3.Or(z3.Not(v.z(unique_a)), z3.Not(zor_(eq(i, j) for j in range(N) if j != i)))) for i in range(N)]) if N else T
        asserts.append(("verdict", v.iff(o["kind"] == "accept", ok)))
    if o["kind"] == "accept":
        out = o["out"]
        facts["out_kind"] = H.pl_kind(out) if H._is_pl(out) else type(out).__name__
        asserts.append(("kind_preserved", v.holds(same_kind(out, df))))
        if H._is_pl(out):
            asserts.append(("column/other_columns_unchanged", pl_equal_columns(v, out, snap, ["b", "s"])))
    return dict(obs=o, asserts=asserts, facts=facts)


def pl_equal_columns(v, obj, snap, names):
    """the named columns of obj are those of the snapshot: dtype, rows and cells"""
    if snap[0] == "R":
        a = obj.collect() if isinstance(obj, real_pl.LazyFrame) else obj
        b = snap[1].collect() if isinstance(snap[1], real_pl.LazyFrame) else snap[1]
        return all(k in a.columns and a[k].dtype == b[k].dtype and bool(a[k].equals(b[k], null_equal=True)) for k in names)
    ref = {c[0]: c for c in snap[1]}
    terms = []
    for k in names:
        c = obj.cols.get(k)
        if c is None or str(c.dtype) != ref[k][4] or len(obj.present) != len(snap[2]):
            return v.holds(False)
        _, ys, ms, mm, _ = ref[k]
        for i in range(len(snap[2])):
            terms.append(obj.present[i] == snap[2][i])
            terms.append(z3.Implies(snap[2][i], _cell_eq(c.vals[i], c.nulls[i], None if c.nans is None else c.nans[i], ys[i], ms[i], None if mm is None else mm[i])))
    return v.holds(z3.And(*terms) if terms else T)


# ------------------------------------------------------------------ fault schedules over user callbacks on polars (C06 b)
def pl_fault_case(v, shape, lazy, N, max_faults):
    """user check functions (column-level expression check, element-wise check, dataframe-level check) consult one symbolic
    flag per invocation; whichever call fails, the outcome stays in the documented channel and the schema, the configuration and
    the caller's frame are as before"""
    import tmpl

    calls, flags = [], []

    def maybe_fail(tag):
        j = len(calls)
        calls.append(tag)
        f = v.bool(f"fail{j}")
        flags.append(f)
        if v.sym and max_faults is not None:
            from symx import eng

            eng().assume(z3.AtMost(*[z3.Bool(f"fail{k}") for k in range(12)], max_faults))
        if f:
            if v.bool("bare"):
                raise tmpl.Injected()
            raise tmpl.Injected(f"injected@{j}:{tag}")

    def colcheck(tag):
        def fn(data):
            maybe_fail(tag)
            from sympl import PROXY as pl  # the namespace pandera's own polars code sees (shim or real polars)

            return data.lazyframe.select(pl.col(data.key).ge(0))
        return fn

    def elem(tag):
        def fn(x):
            maybe_fail(tag)
            return x >= 0
        return fn

    def dfc(tag):
        def fn(data):
            maybe_fail(tag)
            from sympl import PROXY as pl

            return data.lazyframe.select(pl.col("b").ge(0))
        return fn

    lazyframe = shape.endswith("_lf")
    df = v.plframe([("a", "float"), ("b", "int", False)], N, lazy=lazyframe)
    snap = pl_snapshot(df)
    if shape.startswith("frame"):
        schema = ppl.DataFrameSchema({"a": ppl.Column(float, [Check(colcheck("c1")), Check(elem("el"), element_wise=True)], nullable=True),
                                      "b": ppl.Column(int, Check(colcheck("c2")))}, checks=Check(dfc("df")))
    else:
        schema = ppl.Column(float, [Check(colcheck("c1")), Check(elem("el"), element_wise=True)], nullable=True, name="a")
    fp0, cfg0 = tmpl.fingerprint(schema) if shape.startswith("frame") else None, tmpl.config_fingerprint()

    def run():
        with config_context(validation_depth=ValidationDepth.SCHEMA_AND_DATA):
            return schema.validate(df, lazy=lazy)

    o = H.outcome(run)
    n_injected = sum(1 for k in range(len(flags)) if tmpl._flag_true(v, flags[k]))
    asserts = [("fault/channel", v.holds(channel_ok(o))), ("fault/input_unchanged", pl_equal(v, df, snap)),
               ("fault/config_unchanged", v.holds(tmpl.config_fingerprint() == cfg0))]
    if fp0 is not None:
        asserts.append(("fault/schema_unchanged", v.holds(tmpl.fingerprint(schema) == fp0)))
    if n_injected:
        asserts.append(("fault/reported_as_failed_check", v.holds(o["kind"] in ("SchemaError", "SchemaErrors"))))
        if o["kind"] == "SchemaErrors":
            asserts.append(("fault/reason_check_error", v.holds("CHECK_ERROR" in o["reasons"])))
    return dict(obs=o, asserts=asserts, facts=dict(kind=o["kind"], reason=o.get("reason"), reasons=o.get("reasons"), calls=list(calls), injected=n_injected,
                                                   _msg=o.get("msg")))


def fault_cases(tier):
    out = []
    N = 2
    for shape in ("frame", "frame_lf", "column"):
        for lazy in (False, True):
            mf = 1 if tier == "quick" else None
            out.append((f"PL/X/{shape}/lazy={int(lazy)}/N={N}/faults<={mf}", pl_fault_case, (shape, lazy, N, mf)))
    return out


# ------------------------------------------------------------------ DataFrameModel on polars (C16)
def pl_model_case(v, shape, N):
    """a pandera.polars DataFrameModel (fields, Optional, alias, Config, @check / @dataframe_check, inheritance with overrides) validates a
    polars DataFrame exactly like the object-API polars schema with the same columns, checks and options"""
    import tmpl

    from sympl import PROXY as pl

    lo, hi = v.int("lo"), v.int("hi")
    nullable, unique = v.bool("nullable"), v.bool("unique")
    strict_v = v.choice("strict", [False, True])
    arr = [("a", "float"), ("b", "int")]
    asserts, facts = [], dict(shape=shape)
    with warnings.catch_warnings():
        warnings.simplefilter("ignore")
        if shape == "single":
            class M(ppl.DataFrameModel):
                a: float = ppl.Field(ge=lo, nullable=nullable, unique=unique)
                b: int = ppl.Field(isin=[1, 2, 3])

                class Config:
                    strict = strict_v
            spec = ppl.DataFrameSchema({"a": ppl.Column(float, Check.ge(lo), nullable=nullable, unique=unique), "b": ppl.Column(int, Check.isin([1, 2, 3]))}, strict=strict_v)
            parent = None
        elif shape == "override_field":
            class Base(ppl.DataFrameModel):
                a: float = ppl.Field(ge=lo, nullable=nullable)
                b: int = ppl.Field(isin=[1, 2, 3])

            class M(Base):
                a: float = ppl.Field(le=hi, unique=unique)
            spec = ppl.DataFrameSchema({"a": ppl.Column(float, Check.le(hi), unique=unique), "b": ppl.Column(int, Check.isin([1, 2, 3]))})
            parent = (Base, ppl.DataFrameSchema({"a": ppl.Column(float, Check.ge(lo), nullable=nullable), "b": ppl.Column(int, Check.isin([1, 2, 3]))}))
        elif shape == "optional_alias":
            class M(ppl.DataFrameModel):
                a: float = ppl.Field(ge=lo, nullable=nullable, alias="a1")
                b: Opt_[int] = ppl.Field(isin=[1, 2, 3])
            spec = ppl.DataFrameSchema({"a1": ppl.Column(float, Check.ge(lo), nullable=nullable), "b": ppl.Column(int, Check.isin([1, 2, 3]), required=False)})
            arr = [("a1", "float")] + ([("b", "int")] if v.choice("has_b", [True, False]) else [])
            parent = None
        elif shape == "check_methods":
            class Base(ppl.DataFrameModel):
                a: float = ppl.Field(nullable=nullable)
                b: int
                _limit = lo

                @ppl.check("a")
                def a_big(cls, data):  # noqa: N805
                    return data.lazyframe.select(pl.col(data.key).ge(cls._limit))

                @ppl.dataframe_check
                def wide(cls, data):  # noqa: N805
                    return data.lazyframe.select(pl.col("b").le(hi))

            class M(Base):
                _limit = hi

            if v.choice("order", ["parent_first", "child_first"]) == "parent_first":
                Base.to_schema(), M.to_schema()
            else:
                M.to_schema(), Base.to_schema()
            mk = lambda lim: ppl.DataFrameSchema({"a": ppl.Column(float, Check(lambda d: d.lazyframe.select(pl.col(d.key).ge(lim))), nullable=nullable), "b": ppl.Column(int)},  # noqa: E731
                                                 checks=Check(lambda d: d.lazyframe.select(pl.col("b").le(hi))))
            spec = mk(hi)
            parent = (Base, mk(lo))
        else:
            raise KeyError(shape)
        df = v.plframe([(c, k, k != "int") for c, k in arr], N)
        s1, s1b = M.to_schema(), M.to_schema()
        asserts.append(("model/to_schema_stable", v.holds(tmpl.fingerprint(s1) == tmpl.fingerprint(s1b))))
        if shape != "check_methods":
            asserts.append(("model/schema_equals_spec", v.holds(tmpl._fp_cols(s1) == tmpl._fp_cols(spec))))
        om = H.outcome(lambda: M.validate(df))
        os_ = H.outcome(lambda: spec.validate(df))
        asserts.append(("model/verdict_equals_schema", v.holds(om["kind"] == os_["kind"] and om.get("reason") == os_.get("reason"))))
        if parent is not None:
            P, pspec = parent
            op, osx = H.outcome(lambda: P.validate(df)), H.outcome(lambda: pspec.validate(df))
            asserts.append(("model/parent_verdict", v.holds(op["kind"] == osx["kind"])))
    facts.update(model=om["kind"], schema=os_["kind"], mreason=om.get("reason"), sreason=os_.get("reason"), _msg=om.get("msg"))
    return dict(obs=om, asserts=asserts, facts=facts)


def model_cases(tier):
    out = []
    for N in ((2,) if tier == "quick" else (1, 2, 3)):
        for shape in ("single", "override_field", "optional_alias", "check_methods"):
            out.append((f"PL/M/{shape}/N={N}", pl_model_case, (shape, N)))
    return out


# ------------------------------------------------------------------ check options on polars (C19)
def pl_option_case(v, what, N, opts):
    """element_wise == vectorised expression; ignore_na; raise_warning; aliases — through the real polars check backend"""
    from sympl import PROXY as pl

    c = v.int("c")
    df = v.plframe([("x", "float")], N)
    xs, ns = v.cells("x_", "float", N, True)
    asserts, facts = [], dict(what=what)

    def verdict(check):
        with config_context(validation_depth=ValidationDepth.SCHEMA_AND_DATA):
            return H.outcome(lambda: ppl.DataFrameSchema({"x": ppl.Column(float, check, nullable=True)}).validate(df, lazy=bool(opts.get("lazy"))))

    vec = lambda d: d.lazyframe.select(pl.col(d.key).gt(c))  # noqa: E731
    if what == "element_wise":
        o1 = verdict(Check(lambda x: x > c, element_wise=True))
        o2 = verdict(Check(vec))
        asserts.append(("opt/element_wise_verdict", v.holds((o1["kind"] == "accept") == (o2["kind"] == "accept"))))
        spec = z3.And(*[z3.Or(ns[i], xs[i] > v.z(c)) for i in range(N)]) if N else T
        asserts.append(("opt/element_wise_spec", v.iff(o1["kind"] == "accept", spec)))
        facts.update(el=o1["kind"], vec=o2["kind"])
    elif what == "raise_warning":
        plain, warn = verdict(Check(vec)), verdict(Check(vec, raise_warning=True))
        asserts.append(("opt/raise_warning_never_raises", v.holds(warn["kind"] == "accept")))
        asserts.append(("opt/raise_warning_warns_iff_fails", v.holds((warn.get("warnings", 0) > 0) == (plain["kind"] != "accept"))))
        facts.update(plain=plain["kind"], warn=warn["kind"])
    elif what == "ignore_na":
        o = verdict(Check(vec, ignore_na=True))
        asserts.append(("opt/ignore_na_true_spec", v.iff(o["kind"] == "accept", z3.And(*[z3.Or(ns[i], xs[i] > v.z(c)) for i in range(N)]) if N else T)))
    elif what == "alias":
        for name, x, y in (("eq", Check.eq(c), Check.equal_to(c)), ("ge", Check.ge(c), Check.greater_than_or_equal_to(c)), ("lt", Check.lt(c), Check.less_than(c)),
                           ("between", Check.between(c, c + 2), Check.in_range(c, c + 2))):
            a, b = verdict(x), verdict(y)
            asserts.append((f"opt/alias_{name}", v.holds(a["kind"] == b["kind"])))
    else:
        raise KeyError(what)
    return dict(obs=None, asserts=asserts, facts=facts)


def option_cases(tier):
    out = []
    for N in ((2,) if tier == "quick" else (1, 2, 3)):
        for what in ("element_wise", "raise_warning", "ignore_na", "alias"):
            for lazy in (False, True):
                out.append((f"PL/OPT/{what}/lazy={int(lazy)}/N={N}", pl_option_case, (what, N, dict(lazy=lazy))))
    return out


# ------------------------------------------------------------------ head / tail on polars (C20)
def pl_subsample_case(v, N, which, opts):
    """validate(D, head=h, tail=t): verdict of the frame made of the first h and the last t rows, each selected row once,
    duplicates in the data preserved; the whole of D is returned."""
    lazyframe = bool(opts.get("lazyframe"))
    df = v.plframe([("a", "float"), ("b", "int")], N, lazy=lazyframe)
    snap = pl_snapshot(df)
    lo = v.int("aA")
    nullable, unique_a = v.bool("nullable"), v.bool("unique_a")
    h = v.int("h", 0, N) if "head" in which else None
    t = v.int("t", 0, N) if "tail" in which else None
    ca = O.CheckSpec("ge", True, a=lo)
    with warnings.catch_warnings():
        warnings.simplefilter("ignore")
        wide = None
        if opts.get("wide"):  # a dataframe-level check: it sees the selected rows only, like every other data-level check
            from sympl import PROXY as pl

            wide = Check(lambda d: d.lazyframe.select(pl.col("b").ge(lo)))
        schema = ppl.DataFrameSchema({"a": ppl.Column(float, ca.build(Check), nullable=nullable, unique=unique_a), "b": ppl.Column(int)}, checks=wide)
    kw = {}
    if h is not None:
        kw["head"] = h
    if t is not None:
        kw["tail"] = t
    ns = v.int("ns", 0, N) if "sample" in which else None
    if ns is not None:
        kw["sample"] = ns
        kw["random_state"] = 7

    def run():
        with config_context(validation_depth=ValidationDepth.SCHEMA_AND_DATA):
            if v.sym:
                return schema.validate(df, **kw)
            with H.pl_sample_stub(v.vals):
                return schema.validate(df, **kw)

    o = H.outcome(run)
    xa, na = v.cells("a_", "float", N, True)
    xb, nb = v.cells("b_", "int", N, True)
    sel = []
    for i in range(N):
        s = []
        if h is not None:
            s.append(z3.IntVal(i) < v.z(h))
        if t is not None:
            s.append(z3.IntVal(i) >= N - v.z(t))
        if ns is not None:
            s.append(z3.Bool(f"plsample!7!{i}"))
        sel.append(z3.Or(*s) if s else T)
    viol = []
    for i in range(N):
        dup = zor_(z3.And(sel[j], O.eq_cell(xa, na, i, j)) for j in range(N) if j != i)
        bad_i = [z3.And(z3.Not(v.z(nullable)), na[i]), z3.And(v.z(unique_a), dup), z3.And(z3.Not(na[i]), z3.Not(xa[i] >= v.z(lo))), nb[i]]
        if opts.get("wide"):
            bad_i.append(z3.And(z3.Not(nb[i]), z3.Not(xb[i] >= v.z(lo))))
        viol.append(z3.And(sel[i], z3.Or(*bad_i)))
    asserts = [("subsample/channel", v.holds(channel_ok(o))), ("subsample/input_unchanged", pl_equal(v, df, snap))]
    asserts.append(("subsample/verdict", v.iff(o["kind"] == "accept", z3.Not(zor_(viol)))))
    if o["kind"] == "accept" and H._is_pl(o["out"]):
        asserts.append(("subsample/returns_whole_object", pl_equal(v, o["out"], snap, same_class=False)))
        asserts.append(("kind_preserved", v.holds(same_kind(o["out"], df))))
    return dict(obs=o, asserts=asserts, facts=dict(kind=o["kind"], reason=o.get("reason"), _msg=o.get("msg"), which=list(which)))


# ------------------------------------------------------------------ one definition on pandas and on polars (C08, whole schema)
def pl_equiv_case(v, arrangement, N, opts):
    """the same backend-neutral spec built with pandera.pandas and pandera.polars, the same table (same cell variables) as a
    pandas DataFrame and as a polars DataFrame: same verdict, same failing cells, same parsed table.
    opts: strict, ordered, coerce ('col'), a_kind, default, add_missing, unique, lazy"""
    import pandera as pa

    a_kind = opts.get("a_kind", "float")
    kinds = dict(KINDS, a=a_kind)
    arr = [(c, kinds[c]) for c in arrangement]
    # pandas int64 columns cannot hold nulls: int columns are null-free on both sides
    pdf = v.frame(arr, N)
    pldf = v.plframe([(c, k, k != "int") for c, k in arr], N, missing_as_nan=bool(opts.get("missing_as_nan")))
    lo = v.int("aA")
    nullable, unique_a = v.bool("nullable"), v.bool("unique_a")
    req_b = True if opts.get("b_required_concrete", True) else v.bool("req_b")
    default = v.int("dflt") if opts.get("default") else None
    ca = O.CheckSpec(opts.get("check_a", "ge"), True, a=lo, b=lo)
    cb = O.CheckSpec("isin", True, set=[1, 2, 3])
    coerce = opts.get("coerce") == "col"

    def mk(mod):
        with warnings.catch_warnings():
            warnings.simplefilter("ignore")
            return mod.DataFrameSchema(
                {"a": mod.Column(float, checks=[ca.build(Check)], nullable=nullable, unique=unique_a, coerce=coerce, default=default),
                 "b": mod.Column(int, checks=[cb.build(Check)], required=req_b, default=(1 if opts.get("add_missing") else None))},
                strict=opts.get("strict", False), ordered=bool(opts.get("ordered")), add_missing_columns=bool(opts.get("add_missing")), unique=opts.get("unique"))

    lazy = bool(opts.get("lazy"))
    o_pd = H.outcome(lambda: mk(pa).validate(pdf, lazy=lazy))
    o_pl = H.outcome(lambda: mk(ppl).validate(pldf, lazy=lazy))
    facts = dict(pandas=o_pd["kind"], polars=o_pl["kind"], reason_pd=o_pd.get("reason"), reason_pl=o_pl.get("reason"), _msg=o_pl.get("msg"))
    asserts = [("backend_equiv/schema_verdict", v.holds((o_pd["kind"] == "accept") == (o_pl["kind"] == "accept")))]
    if o_pd["kind"] == "accept" and o_pl["kind"] == "accept":
        asserts.append(("backend_equiv/parsed_table", _tables_equal(v, o_pd["out"], o_pl["out"], N, nan_is_missing=bool(opts.get("missing_as_nan")))))
    if lazy and o_pd["kind"] == "SchemaErrors" and o_pl["kind"] == "SchemaErrors":
        asserts.append(("backend_equiv/failing_cells", _failing_cells_equal(v, o_pd["fc"], o_pl["fc"], N)))
    return dict(obs=None, asserts=asserts, facts=facts)


def _tables_equal(v, a, b, N, nan_is_missing=False):
    """pandas result vs polars result: same columns in the same order, same rows, same cells (null = null; numbers by value)"""
    import pandas as real_pd

    import symframe

    if isinstance(a, symframe.DataFrame) and isinstance(b, (sympl.DataFrame, sympl.LazyFrame)):
        acols = [(str(k), c) for k, c in a._cols]
        bcols = list(b.cols.items())
        if [k for k, _ in acols] != [k for k, _ in bcols] or len(a.present) != len(b.present):
            return v.holds(False)
        terms = []
        for i in range(len(a.present)):
            terms.append(a.present[i] == b.present[i])
            for (_, ca_), (_, cb_) in zip(acols, bcols):
                if nan_is_missing and cb_.nans is not None:
                    terms.append(z3.Implies(a.present[i], _cell_eq(ca_.vals[i], ca_.nulls[i], None, cb_.vals[i], z3.Or(cb_.nulls[i], cb_.nans[i]), None)))
                    continue
                terms.append(z3.Implies(a.present[i], _cell_eq(ca_.vals[i], ca_.nulls[i], None, cb_.vals[i], cb_.nulls[i], None if cb_.nans is None else cb_.nans[i])))
        return v.holds(z3.And(*terms) if terms else T)
    if isinstance(a, real_pd.DataFrame) and isinstance(b, (real_pl.DataFrame, real_pl.LazyFrame)):
        bb = b.collect() if isinstance(b, real_pl.LazyFrame) else b
        if [str(c) for c in a.columns] != list(bb.columns) or len(a) != bb.height:
            return False
        ra = [[H.norm_val(x) for x in row] for row in a.itertuples(index=False, name=None)]
        rb = [[H.norm_val(x) for x in row] for row in bb.rows()]
        return ra == rb
    return v.holds(False)


def _failing_cells_equal(v, fa, fb, N):
    """row-level entries of the two failure-case tables name the same (column, row position, value) cells; pandas labels are
    the default RangeIndex here, so label == position"""
    import pandas as real_pd

    import symframe

    def norm_check(c):
        c = str(c).split("(")[0]
        return c

    row_checks = ("not_nullable", "field_uniqueness", "greater_than_or_equal_to", "less_than_or_equal_to", "isin", "not_equal_to")
    if isinstance(fa, real_pd.DataFrame):
        A = sorted((str(r["column"]), norm_check(r["check"]), H.norm_val(r["index"])) for _, r in fa.iterrows() if norm_check(r["check"]) in row_checks)
        fbb = fb
        B = sorted((str(r["column"]), norm_check(r["check"]), H.norm_val(r["index"])) for r in fbb.iter_rows(named=True) if norm_check(r["check"]) in row_checks)
        return A == B
    # symbolic: for every (column, check, position) the presence in one table is equivalent to the presence in the other
    def entries(fc, shim_pl):
        out = {}
        if shim_pl:
            cols, pres = fc.cols, fc.present
            getv = lambda k, r: cols[k].vals[r]  # noqa: E731
            getn = lambda k, r: cols[k].nulls[r]  # noqa: E731
        else:
            cols, pres = {k: c for k, c in fc._cols}, fc.present
            getv = lambda k, r: cols[k].vals[r]  # noqa: E731
            getn = lambda k, r: cols[k].nulls[r]  # noqa: E731
        for r in range(len(pres)):
            col, chk = getv("column", r), getv("check", r)
            col = col.as_string() if z3.is_expr(col) and z3.is_string_value(col) else str(col)
            chk = chk.as_string() if z3.is_expr(chk) and z3.is_string_value(chk) else str(chk)
            chk = norm_check(chk)
            if chk not in row_checks:
                continue
            for i in range(N):
                idx = getv("index", r)
                hit = z3.And(pres[r], z3.Not(getn("index", r)), (idx == i) if z3.is_expr(idx) else z3.BoolVal(idx == i))
                out[(col, chk, i)] = z3.Or(out.get((col, chk, i), F), hit)
        return out

    if not (isinstance(fa, symframe.DataFrame) and isinstance(fb, (sympl.DataFrame, sympl.LazyFrame))):
        return v.holds(False)
    ea, eb = entries(fa, False), entries(fb, True)
    keys = set(ea) | set(eb)
    return v.holds(z3.And(*[ea.get(k, F) == eb.get(k, F) for k in keys]) if keys else T)


def equiv_cases(tier):
    out = []
    for N in ((2,) if tier == "quick" else (1, 2, 3)):
        for arr in ARRS:
            for strict in (False, True):
                for ordered in (False, True):
                    if tier == "quick" and ordered and arr not in (["a", "b"], ["b", "a"]):
                        continue
                    o = dict(strict=strict, ordered=ordered, b_required_concrete=False)
                    out.append((_tid("EQ", arr, N, o), pl_equiv_case, (arr, N, o)))
        for o in (dict(unique=["a", "b"]), dict(lazy=True), dict(lazy=True, unique=["a", "b"]), dict(coerce="col", a_kind="int"), dict(default=True),
                  dict(check_a="le"), dict(check_a="ne", lazy=True), dict(missing_as_nan=True), dict(missing_as_nan=True, default=True)):
            out.append((_tid("EQ", ["a", "b"], N, o), pl_equiv_case, (["a", "b"], N, o)))
        out.append((_tid("EQ", ["a"], N, dict(add_missing=True)), pl_equiv_case, (["a"], N, dict(add_missing=True))))
        out.append((_tid("EQ", ["b", "a"], N, dict(strict="filter")), pl_equiv_case, (["x", "b", "a"], N, dict(strict="filter"))))
    return out


# ------------------------------------------------------------------ template families per property
ARRS = (["a", "b"], ["b", "a"], ["a"], ["b"], ["a", "b", "x"], ["x", "a", "b"])


def _tid(prefix, arr, N, opts):
    return f"PL/{prefix}/{''.join(arr)}/" + ("/".join(f"{k}={v if not isinstance(v, list) else '+'.join(v)}" for k, v in opts.items()) or "plain") + f"/N={N}"


def verdict_cases(tier):
    """documented semantics at full depth on a polars DataFrame (C08 stage 2 / C01-like), label level included"""
    out = []
    for N in ((2,) if tier == "quick" else (1, 2, 3)):
        for arr in ARRS:
            for strict in (False, True):
                for ordered in (False, True):
                    if tier == "quick" and ordered and arr not in (["a", "b"], ["b", "a"]):
                        continue
                    o = dict(oracle=True, strict=strict, ordered=ordered, b_required_concrete=False)
                    out.append((_tid("V", arr, N, o), pl_frame_case, (arr, N, o)))
        out.append((_tid("V", ["a", "b"], N, dict(unique="a+b")), pl_frame_case, (["a", "b"], N, dict(oracle=True, unique=["a", "b"]))))
        for chk in ("le", "ne", "in_range") if tier != "quick" else ("le",):
            o = dict(oracle=True, check_a=chk)
            if chk != "in_range":
                out.append((_tid("V", ["a", "b"], N, o), pl_frame_case, (["a", "b"], N, o)))
    return out


def pl_depth_relation_case(v, N, opts):
    """the same schema and frame validated under SCHEMA_ONLY, DATA_ONLY and SCHEMA_AND_DATA: full depth accepts exactly when both
    restricted validations accept; every outcome stays in the documented channel.  The int column b may arrive as Float64 with NaN
    cells and be coerced (a NaN cannot become an integer: a data-level failure)."""
    lazyframe = bool(opts.get("lazyframe"))
    b_float = bool(opts.get("b_float"))
    df = v.plframe([("a", "float"), ("b", "float" if b_float else "int")], N, lazy=lazyframe, nan=b_float)
    lo = v.int("aA")
    nullable = v.bool("nullable")
    with warnings.catch_warnings():
        warnings.simplefilter("ignore")
        schema = ppl.DataFrameSchema({"a": ppl.Column(float, Check.ge(lo), nullable=nullable), "b": ppl.Column(int, nullable=True, coerce=(opts.get("coerce") == "col"))},
                                     coerce=(opts.get("coerce") == "schema"))
    outs = {}
    for tag, depth in (("SO", ValidationDepth.SCHEMA_ONLY), ("DO", ValidationDepth.DATA_ONLY), ("SAD", ValidationDepth.SCHEMA_AND_DATA)):
        def run(depth=depth):
            with config_context(validation_depth=depth):
                out = schema.validate(df, lazy=bool(opts.get("lazy")))
                # where data-level validation was requested, a LazyFrame result must also be collectable
                return out.collect() if (lazyframe and depth != ValidationDepth.SCHEMA_ONLY) else out
        outs[tag] = H.outcome(run)
    acc = {k: o["kind"] == "accept" for k, o in outs.items()}
    asserts = [("depth/full_iff_both_parts", v.holds(acc["SAD"] == (acc["SO"] and acc["DO"]))),
               ("channel", v.holds(all(channel_ok(o) for o in outs.values())))]
    return dict(obs=None, asserts=asserts, facts={k: o["kind"] for k, o in outs.items()})


def depth_cases(tier):
    """C18 on polars: explicit SCHEMA_ONLY / DATA_ONLY / SCHEMA_AND_DATA and the container-dependent default"""
    out = []
    N = 2
    for lazyframe in (False, True):
        for depth in (None, "SO", "DO", "SAD"):
            for arr in (["a", "b"], ["a"], ["b", "a"]) if tier == "quick" else ARRS:
                o = dict(oracle=True, lazyframe=lazyframe, depth=depth, b_required_concrete=False, fixpoint=False)
                out.append((_tid("DEPTH", arr, N, o), pl_frame_case, (arr, N, o)))
        o = dict(oracle=True, lazyframe=lazyframe, depth="DO", strict=True, fixpoint=False)
        out.append((_tid("DEPTH", ["a", "b", "x"], N, o), pl_frame_case, (["a", "b", "x"], N, o)))
        o = dict(oracle=True, lazyframe=lazyframe, lazy=True, fixpoint=False)
        out.append((_tid("DEPTH", ["a", "b"], N, o), pl_frame_case, (["a", "b"], N, o)))
        for o in (dict(), dict(coerce="col", b_float=True), dict(coerce="schema", b_float=True), dict(coerce="col", b_float=True, lazy=True)):
            oo = dict(o, lazyframe=lazyframe)
            out.append((f"PL/DEPTHREL/" + ("/".join(f"{k}={x}" for k, x in oo.items())) + f"/N={N}", pl_depth_relation_case, (N, oo)))
    return out


def parse_cases(tier):
    """C03 on polars: parsing options and their combinations; fixpoint assertions"""
    out = []
    N = 2
    combos = []
    for coerce, a_kind in ((None, "float"), ("col", "int"), ("schema", "int")):
        for default in (False, True):
            for add_missing, arr in ((False, ["a", "b"]), (True, ["a"]), (False, ["a", "b", "x"])):
                for strict in (False, "filter"):
                    for drop in (False, True):
                        combos.append((arr, dict(coerce=coerce, a_kind=a_kind, default=default, add_missing=add_missing, strict=strict, drop=drop)))
    combos.append((["a"], dict(coerce=None, a_kind="float", default=False, add_missing=True, strict=False, drop=False, expr_default=True)))
    for arr, c in combos:
        n_on = sum([c["coerce"] is not None, c["default"], c["add_missing"], c["strict"] == "filter", c["drop"]])
        if tier == "quick" and n_on > 2:
            continue
        if n_on == 0:
            continue
        for lazyframe in ((False,) if tier == "quick" else (False, True)):
            o = {k: v for k, v in c.items() if v not in (None, False)}
            if lazyframe:
                o.update(lazyframe=True, depth="SAD")
            out.append((_tid("P", arr, N, o), pl_frame_case, (arr, N, o)))
    out += regex_cases(tier)
    for nan_opts in (dict(default=True, nan=True), dict(coerce="col", a_kind="float", nan=True), dict(drop=True, nan=True), dict(nan=True, lazy=True)):
        out.append((_tid("P", ["a", "b"], N, nan_opts), pl_frame_case, (["a", "b"], N, nan_opts)))
    return out


def drop_cases(tier):
    out = []
    for N in ((2,) if tier == "quick" else (1, 2, 3)):
        for o in (dict(drop=True), dict(drop=True, unique=["a", "b"]), dict(drop=True, coerce="col", a_kind="int"), dict(drop=True, check_a="le"),
                  dict(drop=True, lazyframe=True), dict(drop=True, lazyframe=True, depth="SAD")):
            out.append((_tid("DROP", ["a", "b"], N, o), pl_frame_case, (["a", "b"], N, dict(o, fixpoint=False))))
        out.append((_tid("DROP", ["a", "b", "x"], N, dict(drop=True, strict="filter")), pl_frame_case, (["a", "b", "x"], N, dict(drop=True, strict="filter", fixpoint=False))))
        if N == 2 and tier == "quick":  # two constraints of one column failing on different rows need three rows (a null and a pair of duplicates)
            out.append((_tid("DROP", ["a", "b"], 3, dict(drop=True)), pl_frame_case, (["a", "b"], 3, dict(drop=True, fixpoint=False))))
        if N == 2:  # violations that dropping rows cannot resolve
            out.append((_tid("DROP", ["a", "b"], N, dict(drop=True, a_kind="int")), pl_frame_case, (["a", "b"], N, dict(drop=True, a_kind="int", fixpoint=False))))
            out.append((_tid("DROP", ["a"], N, dict(drop=True)), pl_frame_case, (["a"], N, dict(drop=True, fixpoint=False))))
            out.append((_tid("DROP", ["a", "b", "x"], N, dict(drop=True, strict=True)), pl_frame_case, (["a", "b", "x"], N, dict(drop=True, strict=True, fixpoint=False))))
    return out


def lazy_cases(tier):
    out = []
    for N in ((2,) if tier == "quick" else (1, 2, 3)):
        for arr in (["a", "b"], ["a"], ["a", "b", "x"]):
            for extra in (dict(), dict(strict=True), dict(unique=["a", "b"]), dict(coerce="col", a_kind="int"), dict(scalar_check=True)):
                if arr != ["a", "b"] and extra and "strict" not in extra:
                    continue
                o = dict(lazy=True, compare_eager=True, fixpoint=False, **extra)
                out.append((_tid("LZ", arr, N, o), pl_frame_case, (arr, N, o)))
    return out


def pl_regex_case(v, N, opts):
    """a regex column governing two float columns, with a default / coercion / nullable flag (C03 fixpoint, C04, C06 on polars)"""
    lazyframe = bool(opts.get("lazyframe"))
    xk = "int" if opts.get("coerce") else "float"  # coerce: the matched columns hold integers and are declared float
    df = v.plframe([("x_1", xk), ("x_2", xk), ("b", "int", False)], N, lazy=lazyframe, nan=bool(opts.get("nan")))
    snap = pl_snapshot(df)
    lo = v.int("aA")
    nullable = v.bool("nullable")
    default = v.int("dflt") if opts.get("default") else None

    def mk(parsing):
        with warnings.catch_warnings():
            warnings.simplefilter("ignore")
            return ppl.DataFrameSchema({"^x_[0-9]$": ppl.Column(float, Check.ge(lo), regex=True, nullable=nullable, default=default if parsing else None,
                                                                coerce=parsing and opts.get("coerce") == "col"),
                                        "b": ppl.Column(int)}, strict=opts.get("strict", False), coerce=parsing and opts.get("coerce") == "schema")

    schema = mk(True)

    def run(obj, sch, lz=bool(opts.get("lazy"))):
        with config_context(validation_depth=ValidationDepth.SCHEMA_AND_DATA):
            return sch.validate(obj, lazy=lz)

    import tmpl

    cfg0 = tmpl.config_fingerprint()
    o = H.outcome(lambda: run(df, schema))
    asserts = [("channel", v.holds(channel_ok(o))), ("input_unchanged", pl_equal(v, df, snap)), ("config_unchanged", v.holds(tmpl.config_fingerprint() == cfg0))]
    facts = dict(kind=o["kind"], reason=o.get("reason"), _msg=o.get("msg"))
    if opts.get("coerce"):
        # integers always convert: the verdict is that of the converted columns (the pandas backend's, C08)
        cells = [v.cells(f"x_{k}_", "int", N, True) for k in (1, 2)]
        ok = z3.And(*[z3.And(z3.Or(v.z(nullable) if default is None else T, z3.Not(ns[i])),
                             z3.Or(ns[i], z3.ToReal(xs[i]) >= z3.ToReal(v.z(lo))) if default is None else z3.If(ns[i], v.z(default) >= v.z(lo), z3.ToReal(xs[i]) >= z3.ToReal(v.z(lo))))
                      for xs, ns in cells for i in range(N)]) if N else T
        asserts.append(("verdict", v.iff(o["kind"] == "accept", ok)))
    if o["kind"] == "accept" and H._is_pl(o["out"]):
        out = o["out"]
        asserts.append(("kind_preserved", v.holds(same_kind(out, df))))
        osnap = pl_snapshot(out)
        o2 = H.outcome(lambda: run(out, mk(False), False))
        asserts.append(("fixpoint_conforms", v.holds(o2["kind"] == "accept")))
        facts["strip"] = o2["kind"]
        o3 = H.outcome(lambda: run(out, schema))
        asserts.append(("fixpoint_accepts_again", v.holds(o3["kind"] == "accept")))
        if o3["kind"] == "accept" and H._is_pl(o3["out"]):
            asserts.append(("fixpoint_identity", pl_equal(v, o3["out"], osnap, same_class=False)))
    return dict(obs=o, asserts=asserts, facts=facts)


def regex_cases(tier):
    out = []
    N = 2
    for o in (dict(), dict(default=True), dict(default=True, nan=True), dict(lazy=True), dict(default=True, lazyframe=True), dict(strict=True),
              dict(coerce="col"), dict(coerce="schema"), dict(coerce="col", lazy=True)):
        out.append((f"PL/RX/" + ("/".join(f"{k}={x}" for k, x in o.items()) or "plain") + f"/N={N}", pl_regex_case, (N, o)))
    return out


def standard_cases(tier):
    """shapes shared by C04 (input unchanged, container kind) and C06 (channel) on polars"""
    out = []
    N = 2
    # joint uniqueness over a column that may be absent (optional or missing), eager and lazy
    for arr in (["a"], ["b"], ["a", "b"]):
        for lz in (False, True):
            oo = dict(unique=["a", "b"], lazy=lz, b_required_concrete=False, fixpoint=False)
            out.append((_tid("K", arr, N, oo), pl_frame_case, (arr, N, oo)))
    out += regex_cases(tier)
    for lazyframe in (False, True):
        for o in (dict(), dict(lazy=True), dict(coerce="col", a_kind="int"), dict(default=True), dict(strict="filter"), dict(drop=True), dict(unique=["a", "b"]),
                  dict(unique=["a", "b"], lazy=True), dict(nan=True), dict(add_missing=True)):
            for arr in ((["a", "b"], ["a", "b", "x"], ["a"]) if (o.get("strict") or o.get("add_missing")) else (["a", "b"],)):
                oo = dict(o, lazyframe=lazyframe, fixpoint=False)
                if lazyframe:
                    oo["depth"] = "SAD"
                out.append((_tid("K", arr, N, oo), pl_frame_case, (arr, N, oo)))
        for o in (dict(), dict(lazy=True), dict(coerce=True), dict(default=True), dict(coerce=True, lazy=True)):
            oo = dict(o, lazyframe=lazyframe)
            out.append((f"PL/COL/" + ("/".join(f"{k}={v}" for k, v in oo.items())) + f"/N={N}", pl_column_case, (N, oo)))
    return out


def subsample_cases(tier):
    out = []
    for N in ((2, 3) if tier == "quick" else (1, 2, 3, 4)):
        for which in (["head"], ["tail"], ["head", "tail"], []):
            for lazyframe in (False, True):
                if tier == "quick" and lazyframe and which != ["head"]:
                    continue
                out.append((f"PL/SUB/{'+'.join(which) or 'none'}/lazyframe={int(lazyframe)}/N={N}", pl_subsample_case, (N, which, dict(lazyframe=lazyframe))))
    for N in (2, 3):
        for which in (["head"], ["tail"], ["head", "tail"]):
            out.append((f"PL/SUB/{'+'.join(which)}/wide/N={N}", pl_subsample_case, (N, which, dict(wide=True))))
    for N in (2, 3):
        for which in (["sample"], ["head", "sample"], ["head", "tail", "sample"]):
            out.append((f"PL/SUB/{'+'.join(which)}/lazyframe=0/N={N}", pl_subsample_case, (N, which, {})))
    out.append(("PL/SUB/sample/lazyframe=1/N=2", pl_subsample_case, (2, ["sample"], dict(lazyframe=True))))
    return out
