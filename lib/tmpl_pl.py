"""Polars templates (stage 2 of DESIGN.md 2.3): the REAL pandera polars API and back ends run on a provider-made frame
(sympl shim in symbolic mode, real polars in the concrete replay).  One template returns the labelled assertions of
several properties; the property modules pick theirs (tmpl.pick)."""
from __future__ import annotations

import warnings

import z3

from pvinstall import install

install()
import sympl  # noqa: E402

sympl.install()
import pandera.polars as ppl  # noqa: E402
import polars as real_pl  # noqa: E402
from pandera import Check  # noqa: E402
from pandera.config import ValidationDepth, config_context  # noqa: E402

import pvharness as H  # noqa: E402
import pvoracle as O  # noqa: E402

PLT = {"int": real_pl.Int64, "float": real_pl.Float64, "str": real_pl.String, "bool": real_pl.Boolean}
KINDS = {"a": "float", "b": "int", "x": "int", "s": "str"}
T, F = z3.BoolVal(True), z3.BoolVal(False)


def channel_ok(o):
    return not o["kind"].startswith("leak:")


def is_lazy(x):
    return isinstance(x, (sympl.LazyFrame, real_pl.LazyFrame))


def is_eager(x):
    return isinstance(x, (sympl.DataFrame, real_pl.DataFrame))


def same_kind(a, b):
    return (is_lazy(a) and is_lazy(b)) or (is_eager(a) and is_eager(b))


def pl_snapshot(obj):
    """frames are persistent values; the snapshot is the list of column terms / a clone of the real frame"""
    if isinstance(obj, (sympl.LazyFrame, sympl.DataFrame)):
        return ("S", [(k, list(c.vals), list(c.nulls), None if c.nans is None else list(c.nans), str(c.dtype)) for k, c in obj.cols.items()], list(obj.present), type(obj))
    return ("R", obj.clone(), type(obj))


def _cell_eq(x, nx, nanx, y, ny, nany):
    nanx = F if nanx is None else nanx
    nany = F if nany is None else nany
    if z3.is_expr(x) and z3.is_expr(y) and x.sort() != y.sort():
        if not ((z3.is_int(x) or z3.is_real(x)) and (z3.is_int(y) or z3.is_real(y))):
            return F
    return z3.And(nx == ny, z3.Or(nx, z3.And(nanx == nany, z3.Or(nanx, x == y))))


def pl_equal(v, obj, snap, same_class=True, dtypes=True):
    """obj has the same columns (order, dtypes), the same rows in the same order and the same cells as the snapshot"""
    if snap[0] == "R":
        ref = snap[1]
        if same_class and type(obj) is not snap[2]:
            return False
        a = obj.collect() if isinstance(obj, real_pl.LazyFrame) else obj
        b = ref.collect() if isinstance(ref, real_pl.LazyFrame) else ref
        if a.columns != b.columns or (dtypes and a.dtypes != b.dtypes):
            return False
        return bool(a.equals(b, null_equal=True)) if dtypes else H.jsonable(H.snap_pl(a)["rows"]) == H.jsonable(H.snap_pl(b)["rows"])
    _, cols, present, cls = snap
    if same_class and type(obj) is not cls:
        return v.holds(False)
    ocols = [(k, c.vals, c.nulls, c.nans, str(c.dtype)) for k, c in obj.cols.items()]
    if [c[0] for c in ocols] != [c[0] for c in cols] or (dtypes and [c[4] for c in ocols] != [c[4] for c in cols]):
        return v.holds(False)
    if len(obj.present) != len(present):
        return v.holds(False)  # row-wise comparison of frames with different slot layouts is not needed by the templates
    terms = [zor_(obj._errors) == F] if obj._errors else []
    for i in range(len(present)):
        terms.append(obj.present[i] == present[i])
        row = [_cell_eq(xs[i], ns[i], None if nn is None else nn[i], ys[i], ms[i], None if mm is None else mm[i])
               for (_, xs, ns, nn, _), (_, ys, ms, mm, _) in zip(ocols, cols)]
        terms.append(z3.Implies(present[i], z3.And(*row) if row else T))
    return v.holds(z3.And(*terms) if terms else T)


def zor_(xs):
    xs = list(xs)
    return z3.Or(*xs) if xs else F


def strip_parsing(schema):
    """the same schema with every parsing option switched off (C03)"""
    cols = {}
    for k, c in schema.columns.items():
        cols[k] = ppl.Column(c.dtype, checks=c.checks, nullable=c.nullable, unique=c.unique, required=c.required, regex=c.regex, name=c.name)
    return ppl.DataFrameSchema(cols, checks=schema.checks, strict=(True if schema.strict == "filter" else schema.strict), ordered=schema.ordered,
                               unique=schema.unique)


# ------------------------------------------------------------------ DataFrameSchema on a polars frame
def pl_frame_case(v, arrangement, N, opts):
    """polars DataFrameSchema {a: Float64 column, b: Int64 column} over a column arrangement.
    opts: lazyframe (bool: LazyFrame input), lazy (bool), strict, ordered, coerce (None|'col'|'schema'), a_kind ('float'|'int'),
    default (bool), add_missing (bool), drop (bool), unique (joint), nan (bool: float cells may be NaN), depth (None|'SO'|'DO'|'SAD'),
    ina (bool)"""
    a_kind = opts.get("a_kind", "float")
    kinds = dict(KINDS, a=a_kind)
    arr = [(c, kinds[c]) for c in arrangement]
    lazyframe = bool(opts.get("lazyframe"))
    lazy = bool(opts.get("lazy")) or bool(opts.get("drop"))
    nan = bool(opts.get("nan"))
    df = v.plframe(arr, N, lazy=lazyframe, nan=nan)
    snap = pl_snapshot(df)
    lo = v.int("aA")
    nullable, unique_a = v.bool("nullable"), v.bool("unique_a")
    default = v.int("dflt") if opts.get("default") else None
    coerce = opts.get("coerce")
    req_b = True if opts.get("b_required_concrete", True) else v.bool("req_b")
    ca = O.CheckSpec(opts.get("check_a", "ge"), opts.get("ina", True), a=lo, b=lo)
    cb = O.CheckSpec("isin", True, set=[1, 2, 3])
    with warnings.catch_warnings():
        warnings.simplefilter("ignore")
        schema = ppl.DataFrameSchema(
            {"a": ppl.Column(float, checks=[ca.build(Check)], nullable=nullable, unique=unique_a, coerce=(coerce == "col"),
                             default=(None if default is None else default)),
             "b": ppl.Column(int, checks=[cb.build(Check)], required=req_b, default=(1 if opts.get("add_missing") else None))},
            strict=opts.get("strict", False), ordered=bool(opts.get("ordered")), coerce=(coerce == "schema"),
            add_missing_columns=bool(opts.get("add_missing")), unique=opts.get("unique"), drop_invalid_rows=bool(opts.get("drop")))
    depth = {"SO": ValidationDepth.SCHEMA_ONLY, "DO": ValidationDepth.DATA_ONLY, "SAD": ValidationDepth.SCHEMA_AND_DATA}.get(opts.get("depth"))

    def run(obj, sch=schema, lz=lazy):
        if depth is not None:
            with config_context(validation_depth=depth):
                return sch.validate(obj, lazy=lz)
        return sch.validate(obj, lazy=lz)

    o = H.outcome(lambda: run(df))
    asserts = [("channel", v.holds(channel_ok(o))), ("input_unchanged", pl_equal(v, df, snap))]
    facts = dict(kind=o["kind"], reason=o.get("reason"), msg=o.get("msg"), container="LazyFrame" if lazyframe else "DataFrame")
    parsing = bool(coerce or opts.get("default") or opts.get("add_missing") or opts.get("strict") == "filter" or opts.get("drop"))
    if opts.get("oracle") and not parsing and not nan:
        # documented semantics (the pandas oracle is backend neutral): which part applies is decided by the validation depth —
        # explicit, or by default SCHEMA_ONLY for a LazyFrame and SCHEMA_AND_DATA for a DataFrame
        fa = O.FieldSpec("float", nullable=nullable, unique=unique_a, checks=[ca])
        fb = O.FieldSpec("int", checks=[cb], required=True)
        spec = O.FrameSpec({"a": fa, "b": fb}, strict=opts.get("strict", False), ordered=bool(opts.get("ordered")), unique=opts.get("unique"))
        cells = {c: v.cells(f"{c}_", k, N, True) for c, k in arr}
        parts = []
        for req in (True, False):
            fb.required = req
            ok, _ = spec.label_level_ok(arr)
            viol = spec.row_violations(v, [(c, k) for c, k in arr if k == {"a": "float", "b": "int"}.get(c, k)], cells)
            parts.append((z3.BoolVal(ok), z3.Not(zor_(t for ts in viol.values() for t in ts))))
        rq = v.z(req_b)
        schema_ok, data_ok = z3.If(rq, parts[0][0], parts[1][0]), z3.If(rq, parts[0][1], parts[1][1])
        eff = opts.get("depth") or ("SO" if lazyframe else "SAD")
        oracle = {"SO": schema_ok, "DO": data_ok, "SAD": z3.And(schema_ok, data_ok)}[eff]
        asserts.append(("verdict" if opts.get("depth") in (None, "SAD") and not lazyframe else "depth/" + ("default_lazyframe_schema_only" if opts.get("depth") is None else eff), v.iff(o["kind"] == "accept", oracle)))
        facts["depth"] = eff
    if o["kind"] == "accept":
        out = o["out"]
        asserts.append(("kind_preserved", v.holds(same_kind(out, df))))
        facts["out_kind"] = H.pl_kind(out) if H._is_pl(out) else type(out).__name__
        if not parsing and H._is_pl(out):
            asserts.append(("output_equals_input", pl_equal(v, out, snap, same_class=False)))
        if H._is_pl(out) and opts.get("fixpoint", True):
            # C03: the returned frame conforms to the schema with all parsing options off, and validating it again is the identity
            osnap = pl_snapshot(out)
            o2 = H.outcome(lambda: run(out, strip_parsing(schema), False))
            asserts.append(("fixpoint_conforms", v.holds(o2["kind"] == "accept")))
            facts["strip"] = o2["kind"]
            facts["strip_reason"] = o2.get("reason") or o2.get("msg")
            o3 = H.outcome(lambda: run(out))
            asserts.append(("fixpoint_accepts_again", v.holds(o3["kind"] == "accept")))
            if o3["kind"] == "accept" and H._is_pl(o3["out"]):
                asserts.append(("fixpoint_identity", pl_equal(v, o3["out"], osnap, same_class=False)))
    return dict(obs=o, asserts=asserts, facts=facts)
