"""C10 — coercion either yields conforming data or names exactly the uncoercible values (narrow claim).

(1) the protocol in pandera's own code — pandas_engine.DataType.try_coerce, engines/utils.numpy_pandas_coercible and
numpy_pandas_coerce_failure_cases — over a STUB PAIR for the element conversion: one uninterpreted Boolean u_i per
element ("cannot be converted"); coerce_value(x_i) raises iff u_i, the vectorised conversion raises iff some present
u_i.  (2) schema-level use with the numeric astype model."""
import tmpl
from pvrun import Template

PROPERTY = "C10"
LABELS = ["coerce"]
STUBS = ["element conversion: coerce_value(x_i) raises iff u_i; the vectorised conversion raises iff exists i. present_i and u_i (u_i uninterpreted Booleans)",
         "numeric astype: int->float exact; float->int fails iff a NaN is present and truncates towards zero otherwise (documented numpy behaviour; replayed on real pandas)"]
ASSUMPTIONS = ["what each of the ~60 dtype classes does to a value (np.int64(x), pd.to_datetime, decimal) and polars' strict/non-strict casts are outside the claim (C/Rust)",
               "stub-pair data is null-free (a null cannot be attributed to a slot through Series.map)"]


def templates(tier, seed):
    ts = []
    for N in ((1, 2, 3) if tier == "quick" else (1, 2, 3, 4, 5)):
        ts.append(Template(f"STUB/series/N={N}", tmpl.pick(tmpl.coerce_stub_case, LABELS), (N, "series")))
        # row labels may repeat (concatenated frames, keys used as the index): the failure cases still name every inconvertible element
        ts.append(Template(f"STUB/series_repeated_labels/N={N}", tmpl.pick(tmpl.coerce_stub_case, LABELS), (N, "series", None, "pandas", "ValueError", False)))
    # the element conversion may raise ANY exception type (np.int64(2**64) raises OverflowError), in both engines' try_coerce
    for engine in ("pandas",):  # (a numpy_engine stub is re-resolved to the real pandas_engine dtype inside engines/utils: not stub-able)
        for exc in ("ValueError", "TypeError", "OverflowError", "ArithmeticError", "KeyError"):
            if engine == "pandas" and exc == "ValueError":
                continue
            ts.append(Template(f"STUB/{engine}/{exc}/N=2", tmpl.pick(tmpl.coerce_stub_case, LABELS), (2, "series", None, engine, exc)))
    for comp in ("multiindex_coerce_swapped", "multiindex_coerce", "index_coerce", "column_coerce"):
        for lazy in (False, True):
            ts.append(Template(f"COMP/{comp}/lazy={int(lazy)}/N=2", tmpl.pick(tmpl.component_case, LABELS), (comp, 2, lazy)))
    # elements that compare equal and hash alike (as 1, 1.0 and True do) but convert independently
    for keys in ([0, 0], [0, 1, 0], [0, 0, 0]) if tier == "quick" else ([0, 0], [0, 1, 0], [0, 0, 0], [0, 0, 1, 1], [1, 0, 0, 2]):
        ts.append(Template(f"STUB/equal_elements/{''.join(map(str, keys))}", tmpl.pick(tmpl.coerce_stub_case, LABELS), (len(keys), "series", keys)))
        # ... also under repeated row labels and with an element conversion that raises something other than ValueError
        if tier != "quick" or len(keys) == 2:
            ts.append(Template(f"STUB/equal_elements_repeated_labels/{''.join(map(str, keys))}", tmpl.pick(tmpl.coerce_stub_case, LABELS), (len(keys), "series", keys, "pandas", "TypeError", False)))
    # a dtype whose conversion is written in pandera itself: Category (values outside the categories must not silently become nulls)
    for N in ((1, 2) if tier == "quick" else (1, 2, 3)):
        for level in ("try_coerce", "column"):
            ts.append(Template(f"CAT/{level}/N={N}", tmpl.pick(tmpl.coerce_category_case, LABELS), (N, level)))
    for N in ((2,) if tier == "quick" else (1, 2, 3)):
        for direction in ("i2f", "f2i"):
            for level in ("column", "schema", "series", "component"):
                for lazy in (False, True):
                    ts.append(Template(f"SCHEMA/{direction}/{level}/lazy={int(lazy)}/N={N}", tmpl.pick(tmpl.coerce_schema_case, LABELS), (direction, N, level, lazy)))
    return ts
