"""C16 — a DataFrameModel means the same as the DataFrameSchema it describes (pandas part)."""
import tmpl
from pvrun import Template

PROPERTY = "C16"
LABELS = ["model"]
t_model = tmpl.pick(tmpl.model_case, LABELS)


def templates(tier, seed):
    ts = []
    for N in ((2,) if tier == "quick" else (1, 2, 3)):
        for shape in ("single", "override_field", "add_field", "three_level", "optional_alias", "check_methods", "config_extras", "inherited_cls_check", "falsy_alias", "reannotate", "field_check_options", "parser_methods", "two_parsers", "diamond", "regex_check"):
            ts.append(Template(f"{shape}/N={N}", t_model, (shape, N)))
    import tmpl_pl

    ts += [Template(tid, tmpl.pick(fn, LABELS), args) for tid, fn, args in tmpl_pl.model_cases(tier)]
    return ts
