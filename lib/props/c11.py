"""C11 — drop_invalid_rows removes exactly the rows that violate a row-level constraint (pandas part)."""
import tmpl
from pvrun import Template

PROPERTY = "C11"
LABELS = ["drop"]
t_drop = tmpl.pick(tmpl.drop_case, LABELS)


def templates(tier, seed):
    ts = []
    for N in ((2,) if tier == "quick" else (1, 2, 3)):
        ts.append(Template(f"series_Int/rd=all/coerce=0/N={N}", t_drop, ("series_Int", N, dict(rd="all", coerce=False))))
        for shape in ("series", "column", "frame", "frame_wide", "frame_wide3", "frame_joint", "frame_index", "model"):
            for rd in ("all", "exclude_first", "exclude_last"):
                if shape == "model" and rd != "all":
                    continue
                for coerce in (False, True):
                    if tier == "quick" and coerce and (rd != "all" or shape in ("frame_wide", "frame_wide3", "frame_index")):
                        continue
                    ts.append(Template(f"{shape}/rd={rd}/coerce={int(coerce)}/N={N}", t_drop, (shape, N, dict(rd=rd, coerce=coerce))))
        for shape in ("frame_sets", "frame_nfc", "frame_nfc_mi", "frame_nested"):
            for rd in (("all",) if shape != "frame_sets" or tier == "quick" else ("all", "exclude_first", "exclude_last")):
                ts.append(Template(f"{shape}/rd={rd}/coerce=0/N={N}", t_drop, (shape, N, dict(rd=rd, coerce=False))))
    if tier != "quick":  # four rows: two violating rows around two conforming ones, duplicates that are not adjacent
        for shape in ("series", "column", "frame", "frame_joint", "frame_wide", "frame_index", "frame_sets", "frame_nfc", "model"):
            for rd in ("all", "exclude_first", "exclude_last") if shape in ("series", "frame_joint", "frame_sets") else ("all",):
                for coerce in (False, True) if shape in ("series", "frame") and rd == "all" else (False,):
                    ts.append(Template(f"{shape}/rd={rd}/coerce={int(coerce)}/N=4", t_drop, (shape, 4, dict(rd=rd, coerce=coerce))))
    if tier == "quick":  # two rows cannot be duplicated in one set and not in the other: the smallest revealing frame has three rows
        ts.append(Template("frame_sets/rd=exclude_first/coerce=0/N=3", t_drop, ("frame_sets", 3, dict(rd="exclude_first", coerce=False))))
    # violations that are not attributable to rows are still raised
    for which in tmpl.UNUSUAL:
        if which.startswith("drop_"):
            ts.append(Template(f"NR/{which}/N=2", tmpl.pick(tmpl.unusual_case, LABELS), (which, 2)))
    import tmpl_pl

    ts += [Template(tid, tmpl.pick(fn, LABELS), args) for tid, fn, args in tmpl_pl.drop_cases(tier)]
    return ts
