"""C11 — drop_invalid_rows removes exactly the rows that violate a row-level constraint (pandas part)."""
import tmpl
from pvrun import Template

PROPERTY = "C11"
LABELS = ["drop"]
t_drop = tmpl.pick(tmpl.drop_case, LABELS)


def templates(tier, seed):
    ts = []
    for N in ((2,) if tier == "quick" else (1, 2, 3)):
        for shape in ("series", "column", "frame", "frame_wide", "frame_joint", "frame_index", "model"):
            for rd in ("all", "exclude_first", "exclude_last"):
                if shape == "model" and rd != "all":
                    continue
                for coerce in (False, True):
                    if tier == "quick" and coerce and (rd != "all" or shape in ("frame_wide", "frame_index")):
                        continue
                    ts.append(Template(f"{shape}/rd={rd}/coerce={int(coerce)}/N={N}", t_drop, (shape, N, dict(rd=rd, coerce=coerce))))
    import tmpl_pl

    ts += [Template(tid, tmpl.pick(fn, LABELS), args) for tid, fn, args in tmpl_pl.drop_cases(tier)]
    return ts
