"""C15 — schema transformations mirror the corresponding dataframe transformations."""
import tmpl
from pvrun import Template

PROPERTY = "C15"
LABELS = ["transform"]
t_tr = tmpl.pick(tmpl.transform_case, LABELS)
t_mi = tmpl.pick(tmpl.transform_mirror_case, LABELS)


def templates(tier, seed):
    ts = []
    for name in tmpl.T_OPS:
        ts.append(Template(f"op/{name}", t_tr, ("op", name)))
    for name in tmpl.T_LAWS:
        ts.append(Template(f"law/{name}", t_tr, ("law", name)))
    for name in tmpl.T_INVALID:
        ts.append(Template(f"invalid/{name}", t_tr, ("invalid", name)))
    for N in ((2,) if tier == "quick" else (1, 2, 3, 4)):
        for name in ("rename(b->z)", "remove(b)", "select([b])", "add(c)", "update(b nullable)", "set_index(b)"):
            ts.append(Template(f"mirror/{name}/N={N}", t_mi, (name, N)))
    return ts
