"""C03 — whatever validate returns conforms to the schema (parse postcondition / fixpoint)."""
import itertools

import tmpl
from pvrun import Template

PROPERTY = "C03"
LABELS = ["fixpoint_conforms", "fixpoint_accepts_again", "fixpoint_identity"]
t_parse = tmpl.pick(tmpl.parse_case, LABELS)
t_sidx = tmpl.pick(tmpl.series_index_case, LABELS)
t_wide = tmpl.pick(tmpl.wide_parse_case, LABELS)


def templates(tier, seed):
    ts = []
    N = 2
    for vc, ic in itertools.product((False, True), repeat=2):
        for lazy in (False, True):
            ts.append(Template(f"SI/val_coerce={int(vc)}/idx_coerce={int(ic)}/lazy={int(lazy)}/N={N}", t_sidx, (N, lazy, vc, ic)))
            if tier != "quick":
                ts.append(Template(f"SI/val_coerce={int(vc)}/idx_coerce={int(ic)}/lazy={int(lazy)}/N=3", t_sidx, (3, lazy, vc, ic)))
    # add_missing_columns with several gaps: every non-empty subset of four declared columns, with and without `ordered`
    names = ["c0", "c1", "c2", "c3"]
    for k in range(1, 5):
        for sub in itertools.combinations(names, k):
            for ordered in (False, True):
                ts.append(Template(f"W/{''.join(c[1] for c in sub)}/ordered={int(ordered)}", t_wide, (list(sub), 1, dict(ordered=ordered))))
    for sub, strict in ((["x", "c1", "c3"], "filter"), (["c1", "x", "c3"], "filter"), (["c0", "c2", "x"], "filter"), (["c1", "c3"], True)):
        ts.append(Template(f"W/{''.join(c[-1] for c in sub)}/strict={strict}/ordered=1", t_wide, (sub, 1, dict(ordered=True, strict=strict))))
    combos = []
    for coerce, a_kind in ((None, "float"), ("col", "int"), ("schema", "int"), ("col", "float")):
        for default in (False, True):
            for add_missing, arr in ((False, ["a", "b"]), (True, ["b"]), (False, ["a", "b", "x"])):
                for strict in (False, "filter"):
                    for drop in (False, True):
                        combos.append(dict(coerce=coerce, a_kind=a_kind, default=default, add_missing=add_missing, strict=strict, drop=drop, arr=arr))
    for c in combos:
        n_on = sum([c["coerce"] is not None, c["default"], c["add_missing"], c["strict"] == "filter", c["drop"]])
        if tier == "quick" and n_on > 2:
            continue
        arr = c.pop("arr")
        c["distinct_labels"] = c["drop"]
        tid = "P/" + "".join(arr) + "/" + "/".join(f"{k}={v}" for k, v in c.items() if k != "distinct_labels")
        ts.append(Template(tid, t_parse, (arr, N, c)))
        # (left out at three rows: default filling on arrangement `ab` — z3 answers `unknown` at one branch after 90 s, which is a gap, not a verdict)
        if tier != "quick" and n_on <= 1 and not (c["default"] and arr == ["a", "b"]):  # three rows: a dropped row between two kept ones, a default filled next to a coerced cell
            ts.append(Template(tid + "/N=3", t_parse, (arr, 3, dict(c))))
    for tid, fn, args in tmpl.standard_cases(tier):
        if tid.startswith(("SP/", "DT/")):
            ts.append(Template(tid, tmpl.pick(fn, LABELS), args))
    import tmpl_pl

    ts += [Template(tid, tmpl.pick(fn, LABELS), args) for tid, fn, args in tmpl_pl.parse_cases(tier)]
    return ts
