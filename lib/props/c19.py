"""C19 — check options do only what they document (pandas part): metamorphic pairs on the same symbolic data."""
import tmpl
from pvrun import Template

PROPERTY = "C19"
LABELS = ["opt"]
t_opt = tmpl.pick(tmpl.option_case, LABELS)


def templates(tier, seed):
    ts = []
    for N in ((2, 3) if tier == "quick" else (1, 2, 3, 4)):
        for pred in (("gt", "between") if tier == "quick" else ("gt", "eq", "le", "between")):
            for ina in (True, False):
                ts.append(Template(f"element_wise/{pred}/ina={int(ina)}/N={N}", t_opt, ("element_wise", N, dict(pred=pred, ina=ina))))
            ts.append(Template(f"n_failure_cases/{pred}/N={N}", t_opt, ("n_failure_cases", N, dict(pred=pred))))
            ts.append(Template(f"raise_warning/{pred}/N={N}", t_opt, ("raise_warning", N, dict(pred=pred))))
            ts.append(Template(f"raise_warning_scalar/{pred}/N={N}", t_opt, ("raise_warning", N, dict(pred=pred, scalar=True))))
            ts.append(Template(f"raise_warning_scalar_lazy/{pred}/N={N}", t_opt, ("raise_warning", N, dict(pred=pred, scalar=True, lazy=True))))
            ts.append(Template(f"ignore_na_field/{pred}/N={N}", t_opt, ("ignore_na_field", N, dict(pred=pred))))
        ts.append(Template(f"alias/N={N}", t_opt, ("alias", N, {})))
        ts.append(Template(f"n_failure_cases_frame/N={N}", t_opt, ("n_failure_cases_frame", N, {})))
        # nullable integer extension dtype: ignore_na must hide <NA> like any other null
        ts.append(Template(f"ignore_na_field/Int64/gt/N={N}", t_opt, ("ignore_na_field", N, dict(pred="gt", kind="Int"))))
        ts.append(Template(f"element_wise/Int64/gt/ina=1/N={N}", t_opt, ("element_wise", N, dict(pred="gt", ina=True, kind="Int"))))
        for groups in (None, ["x"], ["x", "y"]):
            if groups and "y" in groups and N < 2:
                continue  # with one row the key column only holds 'x': asking for group 'y' is a usage error by design
            ts.append(Template(f"groupby/groups={groups}/N={N}", t_opt, ("groupby", N, dict(groups=groups))))
        ts.append(Template(f"wide_ignore_na/N={N}", t_opt, ("wide_ignore_na", N, {})))
    if tier != "quick":  # five rows for the option pairs whose verdict depends on how many rows fail (truncation, null masking)
        for pred in ("gt", "between"):
            for ina in (True, False):
                ts.append(Template(f"element_wise/{pred}/ina={int(ina)}/N=5", t_opt, ("element_wise", 5, dict(pred=pred, ina=ina))))
            ts.append(Template(f"n_failure_cases/{pred}/N=5", t_opt, ("n_failure_cases", 5, dict(pred=pred))))
            ts.append(Template(f"ignore_na_field/{pred}/N=5", t_opt, ("ignore_na_field", 5, dict(pred=pred))))
        ts.append(Template("n_failure_cases_frame/N=5", t_opt, ("n_failure_cases_frame", 5, {})))
    import tmpl_pl

    ts += [Template(tid, tmpl.pick(fn, LABELS), args) for tid, fn, args in tmpl_pl.option_cases(tier)]
    return ts
