import os
"""C13 — every synthesised example satisfies the schema that produced it (element level).

The real pandera strategy algebra (field_element_strategy, every *_strategy, pandas_dtype_strategy, to_numpy_dtype,
STRATEGY_DISPATCHER) runs on hypothesis stand-ins that collect the documented constraints of each constructor
(symstrat).  Obligation per path: constraints(x) => every real check passes on the one-element symbolic Series [x].
Counterexamples are replayed with the real hypothesis: hypothesis.find searches the real strategy (concrete
parameters from the model) for a draw that fails the real checks."""
import itertools
import time
import traceback
import warnings

import numpy as np
import z3

from pvinstall import install

install()
import pandera as pa  # noqa: E402
from pandera import Check  # noqa: E402
from pandera.engines import pandas_engine  # noqa: E402

import pvharness as H  # noqa: E402
import symframe  # noqa: E402
import symstrat  # noqa: E402
from pvrun import Template  # noqa: E402
from symx import Engine, ModelGap, PathAbort, SymBool, SymInt, SymStr, lift_bool, set_engine  # noqa: E402

PROPERTY = "C13"
FUNCTIONS_ENCODED = ["pandera.strategies.pandas_strategies.{field_element_strategy,pandas_dtype_strategy,to_numpy_dtype,eq_strategy,ne_strategy,"
                     "gt_strategy,ge_strategy,lt_strategy,le_strategy,in_range_strategy,isin_strategy,notin_strategy,str_matches_strategy,"
                     "str_contains_strategy,str_startswith_strategy,str_endswith_strategy,str_length_strategy,STRATEGY_DISPATCHER}",
                     "pandera.api.checks.Check.{strategy,statistics}", "pandera.backends.pandas.builtin_checks.* (as the oracle side: the real checks)"]
STUBS = ["hypothesis.strategies.{just,sampled_from,text,from_regex,integers,floats,booleans} and hypothesis.extra.numpy.from_dtype: a fresh element "
         "variable constrained by the constructor's documented contract; .filter(p) runs the real predicate; .map(np scalar type) is the identity",
         "re.compile(p).{fullmatch,search,match} on a symbolic string: membership in the translated regular language"]
ASSUMPTIONS = ["container assembly (pdst.series/data_frames, null masks, index attachment) and the hypothesis draw engine are outside the claim",
               "element domain: integers |x| <= 2^31, reals, printable strings"]
BOUNDS = {"quick": {"chain length": "<= 2", "dtype kinds": "int64, float64, str"}, "thorough": {"chain length": "<= 3", "dtype kinds": "int64, float64, str"}}
DTYPE = {"int": "int64", "float": "float64", "str": "str"}
NUM = ["eq", "ne", "gt", "ge", "lt", "le", "in_range", "isin", "notin"]
STR = ["eq", "ne", "isin", "notin", "str_matches", "str_contains", "str_startswith", "str_endswith", "str_length"]


def mk_check(v, kind, name, tag):
    if kind in ("int", "float"):
        a, b = (lambda: v.int("a" + tag, -100, 100)), (lambda: v.int("b" + tag, -100, 100))
        table = {"eq": lambda: Check.eq(a()), "ne": lambda: Check.ne(a()), "gt": lambda: Check.gt(a()), "ge": lambda: Check.ge(a()),
                 "lt": lambda: Check.lt(b()), "le": lambda: Check.le(b()),
                 "in_range": lambda: Check.in_range(a(), b(), v.bool("imin" + tag), v.bool("imax" + tag)),
                 "isin": lambda: Check.isin([1, 2, 3]), "notin": lambda: Check.notin([1, 2, 3])}
    else:
        table = {"eq": lambda: Check.eq("ab"), "ne": lambda: Check.ne("ab"), "isin": lambda: Check.isin(["a", "ab"]), "notin": lambda: Check.notin(["a", "ab"]),
                 "str_matches": lambda: Check.str_matches("a[0-9]+"), "str_contains": lambda: Check.str_contains("b|c"),
                 "str_startswith": lambda: Check.str_startswith("ab"), "str_endswith": lambda: Check.str_endswith("z"),
                 "str_length": lambda: Check.str_length(v.choice("minl" + tag, [None, 1, 2]), v.choice("maxl" + tag, [None, 2, 3]))}
    return table[name]()


def chain_case(v, kind, names):
    import pandera.strategies.pandas_strategies as PS

    checks = []
    try:
        for i, n in enumerate(names):
            checks.append(mk_check(v, kind, n, str(i)))
    except ValueError:
        return dict(kind="ctor ValueError")
    dtype = pandas_engine.Engine.dtype(DTYPE[kind])
    if v.sym:
        saved = (PS.st, PS.npst, PS.re)
        PS.st, PS.npst, PS.re = symstrat.ST(), symstrat.NPST(), symstrat.RE()
        symstrat.reset()
        try:
            with warnings.catch_warnings():
                warnings.simplefilter("ignore")
                try:
                    strat = PS.field_element_strategy(dtype, checks=checks)
                    strat.validate()
                except (ModelGap, PathAbort):
                    raise
                except Exception as exc:  # noqa: BLE001 - a strategy that cannot be built reports instead of emitting data
                    if os.environ.get("PVERIF_DEBUG"):
                        import traceback

                        traceback.print_exc()
                    return dict(kind="strategy raised " + type(exc).__name__, msg=str(exc)[:120], checks=checks)
        finally:
            PS.st, PS.npst, PS.re = saved
        x = strat.x
        ser = symframe.Series([x], name="s", dtype=np.dtype({"int": "int64", "float": "float64", "str": object}[kind]))
        passed = []
        for c in checks:
            r = c(ser).check_passed
            passed.append(r.z if isinstance(r, SymBool) else z3.BoolVal(bool(r)))
        return dict(kind="ok", x=x, cons=strat.cons, passed=passed, checks=checks)
    with warnings.catch_warnings():
        warnings.simplefilter("ignore")
        try:
            strat = PS.field_element_strategy(dtype, checks=checks)
        except Exception as exc:  # noqa: BLE001
            return dict(kind="strategy raised " + type(exc).__name__, msg=str(exc)[:120], checks=checks)
    return dict(kind="ok", strategy=strat, checks=checks, dtype=dtype)


def series_case(v, kind, N, opts):
    """series level (C13): the REAL series_strategy — element strategy, pdst.series, dtype conversion, null masks, fallback
    filters for custom vectorised checks, in the order the code applies them — on the contract stubs; every series that satisfies
    the collected constraints must pass the REAL validation of the schema that produced the strategy."""
    import pandera.strategies.pandas_strategies as PS

    lo = v.int("lo", -5, 5)
    nullable, unique = v.bool("nullable"), v.bool("unique")
    checks = [Check.ge(lo)] if kind == "float" else [Check.str_startswith("a")]
    if opts.get("custom") == "no_nulls":  # a vectorised custom check without a strategy: the fallback is a filter on the whole series
        checks.append(Check(lambda s: s.notna().all(), ignore_na=False))
    elif opts.get("custom") == "first_is_max":
        checks.append(Check(lambda s: s >= lo, ignore_na=True))
    schema = pa.SeriesSchema(float if kind == "float" else str, checks=checks, nullable=nullable, unique=unique, name="s")
    dtype = pandas_engine.Engine.dtype(DTYPE[kind])
    if v.sym:
        saved = (PS.st, PS.npst, PS.re, PS.pdst, PS.null_field_masks)
        PS.st, PS.npst, PS.re, PS.pdst, PS.null_field_masks = symstrat.ST(), symstrat.NPST(), symstrat.RE(), symstrat.PDST(), symstrat.null_field_masks_stub
        symstrat.reset()
        try:
            with warnings.catch_warnings():
                warnings.simplefilter("ignore")
                strat = PS.series_strategy(dtype, checks=checks, nullable=nullable, unique=unique, name="s", size=N)
        finally:
            PS.st, PS.npst, PS.re, PS.pdst, PS.null_field_masks = saved
        from symx import eng

        for c in strat.cons:
            eng().constrain(c)  # from here on the path only contains series the strategy can emit
        ser = strat.series
        o = H.outcome(lambda: schema.validate(ser))
        return dict(obs=None, asserts=[("series_draws_satisfy_schema", v.holds(o["kind"] == "accept"))],
                    facts=dict(kind=kind, custom=opts.get("custom"), verdict=o["kind"], reason=o.get("reason")))
    # concrete side: only asked to confirm a solver-found counterexample — search the REAL strategy for a draw its own schema rejects
    from hypothesis import HealthCheck, find, settings
    from hypothesis.errors import NoSuchExample, Unsatisfiable

    if not v.vals.get("_confirm", True):
        return dict(obs=None, asserts=[("series_draws_satisfy_schema", True)], facts=dict(kind=kind, custom=opts.get("custom"), verdict="accept", reason=None))
    with warnings.catch_warnings():
        warnings.simplefilter("ignore")
        strat = PS.series_strategy(dtype, checks=checks, nullable=nullable, unique=unique, name="s", size=N)

        def rejected(s):
            try:
                schema.validate(s)
                return False
            except pa.errors.SchemaError:
                return True

        try:
            bad = find(strat, rejected, settings=settings(max_examples=3000, database=None, deadline=None, suppress_health_check=list(HealthCheck)))
            return dict(obs=None, asserts=[("series_draws_satisfy_schema", False)],
                        facts=dict(kind=kind, custom=opts.get("custom"), verdict="SchemaError", reason=None, _draw=repr(list(bad))))
        except (NoSuchExample, Unsatisfiable):
            return dict(obs=None, asserts=[("series_draws_satisfy_schema", True)], facts=dict(kind=kind, custom=opts.get("custom"), verdict="accept", reason=None))


def frame_case(v, N, opts):
    """dataframe level (C13): the REAL dataframe_strategy (column expansion, joint `unique` handling, column strategies, pdst.data_frames,
    dtype conversion, null masks, fallback filters) on the contract stubs; every frame that satisfies the collected constraints must
    pass the REAL validation of the schema that produced the strategy."""
    import pandera.strategies.pandas_strategies as PS

    lo = v.int("lo", -5, 5)
    null_a, uniq_a = v.bool("null_a"), v.bool("uniq_a")
    joint = ["a", "b"] if opts.get("joint") else None
    cb = [Check.isin([1, 2, 3])]
    if opts.get("custom"):
        cb.append(Check(lambda s: s.notna().all(), ignore_na=False))
    schema = pa.DataFrameSchema({"a": pa.Column(float, Check.ge(lo), nullable=null_a, unique=uniq_a), "b": pa.Column(float, cb, nullable=v.bool("null_b"))}, unique=joint)
    if v.sym:
        saved = (PS.st, PS.npst, PS.re, PS.pdst, PS.null_dataframe_masks, PS.composite)
        PS.st, PS.npst, PS.re, PS.pdst = symstrat.ST(), symstrat.NPST(), symstrat.RE(), symstrat.PDST()
        PS.null_dataframe_masks, PS.composite = symstrat.null_dataframe_masks_stub, symstrat.composite_stub
        symstrat.reset()
        try:
            with warnings.catch_warnings():
                warnings.simplefilter("ignore")
                strat = schema.strategy(size=N)
        finally:
            PS.st, PS.npst, PS.re, PS.pdst, PS.null_dataframe_masks, PS.composite = saved
        from symx import eng

        for c in strat.cons:
            eng().constrain(c)
        o = H.outcome(lambda: schema.validate(strat.frame))
        return dict(obs=None, asserts=[("frame_draws_satisfy_schema", v.holds(o["kind"] == "accept"))],
                    facts=dict(joint=bool(joint), custom=bool(opts.get("custom")), verdict=o["kind"], reason=o.get("reason")))
    from hypothesis import HealthCheck, find, settings
    from hypothesis.errors import NoSuchExample, Unsatisfiable

    with warnings.catch_warnings():
        warnings.simplefilter("ignore")
        strat = schema.strategy(size=N)

        def rejected(d):
            try:
                schema.validate(d)
                return False
            except pa.errors.SchemaError:
                return True

        try:
            bad = find(strat, rejected, settings=settings(max_examples=3000, database=None, deadline=None, suppress_health_check=list(HealthCheck)))
            return dict(obs=None, asserts=[("frame_draws_satisfy_schema", False)],
                        facts=dict(joint=bool(joint), custom=bool(opts.get("custom")), verdict="SchemaError", reason=None, _draw=bad.to_dict("list")))
        except (NoSuchExample, Unsatisfiable):
            return dict(obs=None, asserts=[("frame_draws_satisfy_schema", True)], facts=dict(joint=bool(joint), custom=bool(opts.get("custom")), verdict="accept", reason=None))


def _real_check_passes(checks, el, kind):
    import pandas as pd

    ser = pd.Series([el], name="s", dtype={"int": "int64", "float": "float64", "str": object}[kind])
    return all(bool(c(ser).check_passed) for c in checks)


def run_template(t, tier, seed):
    from hypothesis import HealthCheck, Phase, find, given, settings
    from hypothesis.errors import NoSuchExample, Unsatisfiable

    if t.tid.startswith(("SER/", "DF/")):
        from pvrun import explore_template

        return explore_template(t, tier, seed)

    kind, names = t.args
    t0 = time.time()
    e = Engine(timeout_ms=10000 if tier == "quick" else 60000, seed=seed, max_paths=4000, budget_s=100 if tier == "quick" else 900)
    set_engine(e)
    holder = {}

    def sym():
        v = H.V(e)
        holder["v"] = v
        r = chain_case(v, kind, names)
        r["_vars"] = dict(v.vars)
        return r

    paths = e.explore(sym)
    res = dict(tid=t.tid, paths=len(paths), ret_paths=0, gaps={}, harness_errors=[], mismatches=[], obligations=0, discharged=0, trivial=0, inconclusive=0,
               cex=[], replayed_ok=0, exhausted=bool(e.exhausted), samples=[], twin_refuted=None, labels={}, kinds={})
    for p in paths:
        if p.kind == "gap":
            res["gaps"][str(p.value)[:90]] = res["gaps"].get(str(p.value)[:90], 0) + 1
            continue
        if p.kind == "exc":
            res["harness_errors"].append("template raised " + "".join(traceback.format_exception_only(type(p.value), p.value)).strip()[:300])
            continue
        res["ret_paths"] += 1
        out = p.value
        res["kinds"][out["kind"]] = res["kinds"].get(out["kind"], 0) + 1
        decls = out["_vars"]
        wit = e.witness(p)
        wvals = H.vals_from_model(wit, decls)
        if out["kind"] != "ok":
            # the concrete strategy must report the same way (guard on the stubs' argument validation)
            conc = chain_case(H.V(None, wvals), kind, names)
            sym_k = out["kind"]
            if conc["kind"] == "ok":
                # building succeeds lazily in hypothesis; an invalid argument surfaces on the first draw
                try:
                    conc["strategy"].example()
                    conc_k = "ok"
                except Exception as exc:  # noqa: BLE001
                    conc_k = "strategy raised " + type(exc).__name__
            else:
                conc_k = conc["kind"]
            if conc_k.split()[0:2] != sym_k.split()[0:2]:
                res["mismatches"].append(dict(what="strategy construction differs", sym=sym_k, real=conc_k, vals=H.jsonable(wvals)))
            else:
                res["replayed_ok"] += 1
            continue
        x, cons, passed = out["x"], out["cons"], out["passed"]
        elname = x.decl().name()
        # ---- guard on the stubs: real draws at the witness parameters satisfy the collected constraints
        conc = chain_case(H.V(None, wvals), kind, names)
        guarded = res.get("_guarded", 0)
        if guarded >= 4:
            res["replayed_ok"] += 0
        elif conc["kind"] == "ok":
            res["_guarded"] = guarded + 1
            ok_guard, drawn = True, 0
            try:
                seen = []

                @settings(max_examples=12, database=None, deadline=None, derandomize=True, suppress_health_check=list(HealthCheck), phases=[Phase.generate])
                @given(conc["strategy"])
                def collect(el):
                    seen.append(el)

                try:
                    collect()
                except Unsatisfiable:
                    pass
                for el in seen:
                    drawn += 1
                    elv = el.item() if hasattr(el, "item") else el
                    if kind == "str" and not all(32 <= ord(ch) < 127 for ch in str(elv)):
                        continue  # outside the element domain of the claim (printable ASCII)
                    ev = H.Vals(wvals)
                    ev.decls = dict(decls, **{elname: x})
                    ev[elname] = str(elv) if kind == "str" else (int(elv) if kind == "int" else float(elv))
                    if not all(bool(ev.term(q)) for q in p.pc):
                        continue  # the real predicate forked on the element: this draw belongs to another path
                    if not all(bool(ev.term(c)) for c in cons):
                        ok_guard = False
                        res["mismatches"].append(dict(what="real draw violates the collected constraints (stub too strong)", element=repr(elv),
                                                      vals=H.jsonable(wvals), cons=[str(c)[:80] for c in cons]))
                        break
            except Exception as exc:  # noqa: BLE001
                res["mismatches"].append(dict(what="real strategy raised while the stub built one", err=repr(exc)[:200], vals=H.jsonable(wvals)))
                ok_guard = False
            if ok_guard:
                res["replayed_ok"] += 1
        else:
            res["mismatches"].append(dict(what="real strategy construction raised", real=conc["kind"], vals=H.jsonable(wvals)))
        if len(res["samples"]) < 2:
            res["samples"].append(dict(template=t.tid, parameters=H.jsonable(wvals), constraints=[str(c)[:100] for c in cons],
                                       obligation="constraints(el) => every check passes on [el]"))
        # ---- obligation
        res["obligations"] += 1
        goal = z3.Implies(z3.And(*cons) if cons else z3.BoolVal(True), z3.And(*passed) if passed else z3.BoolVal(True))
        ob = e.discharge(p, goal)
        if ob.result == "unsat":
            res["discharged"] += 1
            continue
        if ob.result == "unknown":
            res["inconclusive"] += 1
            continue
        cvals = H.vals_from_model(ob.model, dict(decls, **{elname: x}))
        # ---- replay with the real hypothesis: search the real strategy for a failing draw
        confirmed, detail = False, ""
        try:
            conc = chain_case(H.V(None, cvals), kind, names)
            if conc["kind"] == "ok":
                try:
                    bad = find(conc["strategy"], lambda el: not _real_check_passes(conc["checks"], el.item() if hasattr(el, "item") else el, kind),
                               settings=settings(max_examples=2000, database=None, deadline=None, suppress_health_check=list(HealthCheck)))
                    confirmed, detail = True, f"real strategy draws {bad!r}, which fails the schema's own checks"
                except (NoSuchExample, Unsatisfiable):
                    detail = "no failing draw found by hypothesis.find"
            else:
                detail = "real strategy: " + conc["kind"]
        except Exception as exc:  # noqa: BLE001
            detail = "replay raised " + repr(exc)[:200]
        res["cex"].append(dict(tid=t.tid, label="draws_satisfy_checks", vals=H.jsonable(cvals), facts=dict(chain=list(names), kind=kind),
                               confirmed=confirmed, detail=detail, args=[kind, list(names)]))
    res.update(queries=e.queries, solver_time=round(e.solver_time, 3), decisions=e.n_decisions, wall=round(time.time() - t0, 2))
    if res["paths"] and not res["ret_paths"]:
        res["allow_all_gap"] = True  # chains that need len() of a symbolic string are outside the model; reported as gaps
    return res


def replay(c):
    from hypothesis import HealthCheck, find, settings
    from hypothesis.errors import NoSuchExample, Unsatisfiable

    if c["tid"].startswith("DF/"):
        N, opts = c["args"]
        r = frame_case(H.V(None, H.Vals(c["vals"])), N, opts)
        print("dataframe strategy:", c["tid"], "parameters:", c["vals"], "facts:", r["facts"])
        if not dict(r["asserts"])["frame_draws_satisfy_schema"]:
            print(f"VIOLATION property=C13 replay={c.get('_path', '')}")
            return 1
        print("not reproduced")
        return 0
    if c["tid"].startswith("SER/"):
        kind, N, opts = c["args"]
        r = series_case(H.V(None, H.Vals(c["vals"])), kind, N, opts)
        print("series strategy:", c["tid"], "parameters:", c["vals"], "facts:", r["facts"])
        if not dict(r["asserts"])["series_draws_satisfy_schema"]:
            print(f"VIOLATION property=C13 replay={c.get('_path', '')}")
            return 1
        print("not reproduced")
        return 0

    kind, names = c["args"]
    conc = chain_case(H.V(None, H.Vals(c["vals"])), kind, names)
    print("chain:", names, "dtype:", kind, "parameters:", c["vals"])
    if conc["kind"] != "ok":
        print("strategy:", conc["kind"])
        return 0
    try:
        bad = find(conc["strategy"], lambda el: not _real_check_passes(conc["checks"], el.item() if hasattr(el, "item") else el, kind),
                   settings=settings(max_examples=2000, database=None, deadline=None, suppress_health_check=list(HealthCheck)))
        print(f"real strategy draws {bad!r}, which fails the schema's own checks")
        print(f"VIOLATION property=C13 replay={c.get('_path', '')}")
        return 1
    except (NoSuchExample, Unsatisfiable):
        print("not reproduced")
        return 0


def templates(tier, seed):
    ts = []
    for kind, names in (("int", NUM), ("float", NUM), ("str", STR)):
        for k in ((1, 2) if tier == "quick" else (1, 2, 3)):
            for chain in itertools.permutations(names, k):
                if k == 3 and not (chain[0] in ("ge", "gt", "in_range", "isin", "str_matches") and tier == "thorough"):
                    continue
                if tier == "quick" and k == 2 and kind == "float" and not ({"eq", "in_range", "isin", "ge"} & set(chain)):
                    continue
                ts.append(Template(f"{kind}/{'>'.join(chain)}", chain_case, (kind, list(chain))))
    # series level: the assembly order of series_strategy (elements -> series -> dtype -> null masks -> fallback filters)
    for kind in ("float", "str"):
        for N in ((2,) if tier == "quick" else (1, 2, 3)):
            for custom in (None, "no_nulls", "first_is_max") if kind == "float" else (None, "no_nulls"):
                ts.append(Template(f"SER/{kind}/custom={custom}/N={N}", series_case, (kind, N, dict(custom=custom)), replay=False))
    # dataframe level: the assembly of dataframe_strategy (joint uniqueness, null masks, fallback filters)
    for N in ((2,) if tier == "quick" else (1, 2, 3)):
        for o in (dict(), dict(joint=True), dict(custom=True), dict(joint=True, custom=True)):
            ts.append(Template("DF/" + ("+".join(o) or "plain") + f"/N={N}", frame_case, (N, o), replay=False))
    return ts
