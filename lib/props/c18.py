"""C18 — configuration is scoped, honoured, and validation depth only removes checks.

(a) symx over the real config_context / get_config_context / reset_config_context: nestings up to depth 4 with every
option value, its None-ness and a per-level exception flag symbolic; (b) CrossHair over the real
_config_from_env_vars with the environment stubbed by a symbolic mapping; (c) validation disabled => validate returns
its argument; (d) depth algebra on the C01 schema shapes; (e) truth table of polars get_validation_depth."""
import os
import re
import subprocess
import sys
import time

import z3

import tmpl
from pvinstall import install

install()
import pandera as pa  # noqa: E402
from pandera import Check  # noqa: E402
from pandera import config as cfg  # noqa: E402
from pandera.config import PanderaConfig, ValidationDepth, config_context, get_config_context  # noqa: E402

import pvharness as H  # noqa: E402
import pvoracle as O  # noqa: E402
from pvrun import Template, VERIF  # noqa: E402
from symx import SymBool, lift_bool  # noqa: E402

PROPERTY = "C18"
D = [None, ValidationDepth.SCHEMA_ONLY, ValidationDepth.DATA_ONLY, ValidationDepth.SCHEMA_AND_DATA]
FUNCTIONS_ENCODED = ["pandera.config.config_context", "pandera.config.get_config_context", "pandera.config.reset_config_context",
                     "pandera.config._config_from_env_vars (CrossHair)", "pandera.validation_depth.validate_scope",
                     "pandera.api.polars.utils.get_validation_depth", "validate pipelines of C01 under the three depths"]
BOUNDS = {"quick": {"nesting": "<= 3", "rows": 2, "env strings": "len <= 5, crosshair 25 s per condition"},
          "thorough": {"nesting": "<= 4", "rows": "<= 3", "env strings": "len <= 6, crosshair 90 s per condition"}}
ASSUMPTIONS = ["os.environ is replaced by a symbolic mapping (stub) for _config_from_env_vars",
               "documented env parse: 'False' disables / unset or 'True' enables; cache flags: 'True' enables, unset/'False' disables"]
STUBS = ["os (module global of pandera.config) -> namespace holding a dict, for the CrossHair conditions only"]


def _eqb(v, a, b):
    if isinstance(a, (bool, SymBool)) and isinstance(b, (bool, SymBool)):
        return lift_bool(a) == lift_bool(b) if v.sym else bool(a) == bool(b)
    return z3.BoolVal(a is b) if v.sym else (a is b)


def _same_cfg(v, a, b):
    parts = [_eqb(v, a.validation_enabled, b.validation_enabled), _eqb(v, a.cache_dataframe, b.cache_dataframe),
             _eqb(v, a.keep_cached_dataframe, b.keep_cached_dataframe)]
    dep = a.validation_depth is b.validation_depth
    if v.sym:
        return z3.And(*parts, z3.BoolVal(dep))
    return all(parts) and dep


def cfg_nest_case(v, depth, rich_levels=2):
    saved = get_config_context(validation_depth_default=None)
    try:
        pre = PanderaConfig(validation_enabled=v.bool("s_en"), validation_depth=v.choice("s_d", D), cache_dataframe=v.bool("s_c"),
                            keep_cached_dataframe=v.bool("s_k"))
        cfg.reset_config_context(pre)  # public API only: independent of how pandera.config stores the context
        from copy import copy as _copy

        pre = _copy(pre)
        asserts = []

        def level(k):
            if k == depth:
                return
            entry = get_config_context(validation_depth_default=None)
            # the first `rich_levels` levels vary every option's None-ness; deeper levels vary depth and the exception
            a_en = v.choice(f"n_en{k}", [None, 1]) if k < rich_levels else (None if k % 2 else 1)
            a_en = v.bool(f"v_en{k}") if a_en is not None else None
            a_c = v.choice(f"n_c{k}", [None, 1]) if k < rich_levels else None
            a_c = v.bool(f"v_c{k}") if a_c is not None else None
            a_d = v.choice(f"a_d{k}", D if k < rich_levels else D[:2])
            boom = v.bool(f"boom{k}")
            try:
                with config_context(validation_enabled=a_en, validation_depth=a_d, cache_dataframe=a_c):
                    seen = get_config_context(validation_depth_default=None)
                    # honoured: an option that was given is in force, one that was not keeps the outer value
                    asserts.append((f"honoured/level{k}", v.holds(_hon(v, seen, entry, a_en, a_c, a_d))))
                    level(k + 1)
                    inner_after = get_config_context(validation_depth_default=None)
                    asserts.append((f"restored_inner/level{k}", v.holds(_same_cfg(v, inner_after, seen))))
                    if boom:
                        raise RuntimeError("boom")
            except RuntimeError:
                pass
            after = get_config_context(validation_depth_default=None)
            asserts.append((f"restored/level{k}", v.holds(_same_cfg(v, after, entry))))

        level(0)
        post = get_config_context(validation_depth_default=None)
        asserts.append(("restored/final", v.holds(_same_cfg(v, post, pre))))
        return dict(obs=None, asserts=asserts, facts=dict(depth=depth))
    finally:
        cfg.reset_config_context(saved)


def _hon(v, seen, entry, a_en, a_c, a_d):
    parts = [_eqb(v, seen.validation_enabled, a_en if a_en is not None else entry.validation_enabled),
             _eqb(v, seen.cache_dataframe, a_c if a_c is not None else entry.cache_dataframe),
             _eqb(v, seen.keep_cached_dataframe, entry.keep_cached_dataframe)]
    dep = seen.validation_depth is (a_d if a_d is not None else entry.validation_depth)
    if v.sym:
        return z3.And(*parts, z3.BoolVal(dep))
    return all(parts) and dep


# ------------------------------------------------------------------ (c) validation disabled
def disabled_case(v, shape, N):
    lo = v.int("lo")
    if shape == "series":
        obj = v.series("x", "float", N, sname="s", labels="l")
        schema = pa.SeriesSchema(float, Check.ge(lo), name="s")
    elif shape == "frame":
        obj = v.frame([("a", "float"), ("b", "int")], N, labels="l")
        schema = pa.DataFrameSchema({"a": pa.Column(float, Check.ge(lo)), "b": pa.Column(int)}, strict=True, coerce=True)
    elif shape == "column":
        obj = v.frame([("a", "float")], N, labels="l")
        schema = pa.Column(float, Check.ge(lo), name="a")
    elif shape == "model":
        obj = v.frame([("a", "float")], N, labels="l")

        class M(pa.DataFrameModel):
            a: float = pa.Field(ge=0)

        schema = M
    snap = H.snapshot(obj)
    with config_context(validation_enabled=False):
        o = H.outcome(lambda: schema.validate(obj))
    asserts = [("disabled/returns_argument", v.holds(o["kind"] == "accept" and o.get("out") is obj)),
               ("disabled/untouched", H.equal_to_snapshot(v, obj, snap))]
    return dict(obs=o, asserts=asserts, facts=dict(kind=o["kind"]))


# ------------------------------------------------------------------ (d) depth algebra
def depth_case(v, shape, N, lazy):
    lo = v.int("lo")
    nullable, unique = v.bool("nullable"), v.bool("unique")
    if shape == "series":
        obj = v.series("x", "float", N, sname="s", labels="l", distinct_labels=True)

        def mk(part):
            return pa.SeriesSchema(float if part != "data" else None, Check.ge(lo) if part != "schema" else None,
                                   nullable=nullable if part != "data" else True, unique=unique if part != "schema" else False,
                                   name="s" if part != "data" else None)
    elif shape in ("frame", "frame_missing", "frame_extra", "frame_wrongtype"):
        arr = {"frame": [("a", "float"), ("b", "int")], "frame_missing": [("a", "float")], "frame_extra": [("a", "float"), ("b", "int"), ("x", "int")],
               "frame_wrongtype": [("a", "int", False), ("b", "int")]}[shape]
        obj = v.frame(arr, N, labels="l", distinct_labels=True)
        strict = v.choice("strict", [False, True])

        def mk(part):
            cols = {"a": pa.Column(float if part != "data" else None, Check.ge(lo) if part != "schema" else None,
                                   nullable=nullable if part != "data" else True, unique=unique if part != "schema" else False,
                                   required=part != "data"),
                    "b": pa.Column(int if part != "data" else None, Check.isin([1, 2, 3]) if part != "schema" else None, required=part != "data")}
            return pa.DataFrameSchema(cols, strict=strict if part != "data" else False, unique=["a", "b"] if part != "schema" else None)
    elif shape == "frame_dup_labels":
        # duplicate column labels with unique_column_names=True: a label-level (schema-scope) constraint
        obj = v.frame([("a", "float"), ("a", "float"), ("b", "int")], N, labels="l", distinct_labels=True)
        ucn = v.choice("ucn", [True, False])

        def mk(part):  # the duplicated label is not declared (selecting a duplicated label yields a frame, not a column)
            cols = {"b": pa.Column(int if part != "data" else None, Check.ge(lo) if part != "schema" else None, required=part != "data")}
            return pa.DataFrameSchema(cols, unique_column_names=ucn if part != "data" else False)
    full, sp, dp = mk("full"), mk("schema"), mk("data")

    def acc(schema, depth):
        with config_context(validation_depth=depth):
            return H.outcome(lambda: schema.validate(obj, lazy=lazy))

    o_sad = acc(full, ValidationDepth.SCHEMA_AND_DATA)
    o_so, o_do = acc(full, ValidationDepth.SCHEMA_ONLY), acc(full, ValidationDepth.DATA_ONLY)
    o_sp, o_dp = acc(sp, ValidationDepth.SCHEMA_AND_DATA), acc(dp, ValidationDepth.SCHEMA_AND_DATA)
    A = lambda o: o["kind"] == "accept"  # noqa: E731
    asserts = [("depth/sad_iff_so_and_do", v.holds(A(o_sad) == (A(o_so) and A(o_do)))),
               ("depth/so_is_schema_part", v.holds(A(o_so) == A(o_sp))),
               ("depth/do_is_data_part", v.holds(A(o_do) == A(o_dp))),
               ("depth/channel", v.holds(all(tmpl.channel_ok(o) for o in (o_sad, o_so, o_do, o_sp, o_dp))))]
    facts = dict(sad=o_sad["kind"], so=o_so["kind"], do=o_do["kind"], schema_part=o_sp["kind"], data_part=o_dp["kind"],
                 reasons=[o.get("reason") or o.get("reasons") for o in (o_sad, o_so, o_do, o_sp, o_dp)])
    return dict(obs=o_sad, asserts=asserts, facts=facts)


# ------------------------------------------------------------------ (e) polars get_validation_depth truth table
def polars_depth_case(v):
    import polars as pl
    from pandera.api.polars.utils import get_validation_depth

    saved_ctx, saved_glob = get_config_context(validation_depth_default=None), cfg.CONFIG
    try:
        c_d, g_d = v.choice("ctx_d", D), v.choice("glob_d", D)
        kind = v.choice("kind", ["DataFrame", "LazyFrame"])
        cfg.CONFIG = PanderaConfig(validation_depth=g_d)
        for mname, mod in list(sys.modules.items()):
            pass
        cfg.reset_config_context(PanderaConfig(validation_depth=c_d))
        obj = pl.DataFrame({"a": [1]}) if kind == "DataFrame" else pl.LazyFrame({"a": [1]})
        got = get_validation_depth(obj)
        want = c_d if c_d is not None else g_d if g_d is not None else (ValidationDepth.SCHEMA_AND_DATA if kind == "DataFrame" else ValidationDepth.SCHEMA_ONLY)
        return dict(obs=None, asserts=[("polars_default_depth", v.holds(got is want))], facts=dict(kind=kind, ctx=str(c_d), glob=str(g_d), got=str(got)))
    finally:
        cfg.CONFIG = saved_glob
        cfg.reset_config_context(saved_ctx)


# ------------------------------------------------------------------ (b) CrossHair conditions
CH_FILE = os.path.join(VERIF, "lib", "ch_env.py")
CH_CONDS = ["env_enabled", "env_cache", "env_keep", "env_depth"]


def ch_case(v, fn):  # placeholder: executed by run_template below, not by the symx explorer
    raise NotImplementedError


def _ch_line(fn):
    for i, l in enumerate(open(CH_FILE), 1):
        if l.startswith(f"def {fn}("):
            return i + 1
    raise KeyError(fn)


def run_template(t, tier, seed):
    if not t.tid.startswith("ENV/"):
        from pvrun import explore_template

        return explore_template(t, tier, seed)
    fn = t.args[0]
    t0 = time.time()
    timeout = 25 if tier == "quick" else 90
    py = sys.executable
    # (the caller's PYTHONPATH stays in front of the installed package: it is how a scratch copy of the repository is analysed)
    env = dict(os.environ, PYTHONPATH=os.pathsep.join(x for x in (os.path.join(VERIF, "lib"), os.environ.get("PYTHONPATH", "")) if x),
               PVERIF_CH_MAXLEN="5" if tier == "quick" else "6")
    res = dict(tid=t.tid, paths=1, ret_paths=1, gaps={}, harness_errors=[], mismatches=[], obligations=0, discharged=0, trivial=0, inconclusive=0,
               cex=[], replayed_ok=0, exhausted=True, samples=[], twin_refuted=None, labels={}, kinds={}, queries=0, solver_time=0.0, decisions=1)
    for cond, expect_refuted in ((fn, False), (fn + "_twin", True)):
        p = subprocess.run([py, "-m", "crosshair", "check", "--report_all", "--per_condition_timeout", str(timeout), f"{CH_FILE}:{_ch_line(cond)}"],
                           capture_output=True, text=True, env=env, timeout=timeout * 4 + 60)
        out = (p.stdout + p.stderr).strip()
        if expect_refuted:
            # reachability twin: `post: False` must come back violated, otherwise the harness is vacuous
            if "false when calling" not in out and "error" not in out.lower():
                res["harness_errors"].append(f"reachability twin of {fn} not refuted: {out[:300]}")
            continue
        res["obligations"] += 1
        res["samples"].append(dict(template=t.tid, condition=cond, crosshair_output=out[-400:]))
        if "Confirmed over all paths" in out and "false when" not in out:
            res["discharged"] += 1
        elif "false when calling" in out or "error:" in out:
            m = re.search(r"calling\s+%s\((.*?)\)\s*(\(which|$)" % fn, out, re.S)
            argtxt = m.group(1).strip() if m else out[-200:]
            val = _parse_arg(argtxt)
            confirmed, detail = _replay_env(fn, val)
            res["cex"].append(dict(tid=t.tid, label=fn, vals={"value": val}, facts={"crosshair": out[-300:]}, confirmed=confirmed, detail=detail, args=[fn]))
        else:
            res["inconclusive"] += 1
            res["samples"][-1]["note"] = "not confirmed within the time budget: inconclusive"
    res["wall"] = round(time.time() - t0, 2)
    res["replayed_ok"] = 1
    return res


def _parse_arg(txt):
    m = re.match(r"^\s*(?:v\s*=\s*)?(None|'.*'|\".*\")\s*$", txt, re.S)
    if not m:
        return txt
    import ast

    try:
        return ast.literal_eval(m.group(1))
    except Exception:  # noqa: BLE001
        return txt


ENV_NAME = {"env_enabled": "PANDERA_VALIDATION_ENABLED", "env_cache": "PANDERA_CACHE_DATAFRAME", "env_keep": "PANDERA_KEEP_CACHED_DATAFRAME",
            "env_depth": "PANDERA_VALIDATION_DEPTH"}
ENV_ATTR = {"env_enabled": "validation_enabled", "env_cache": "cache_dataframe", "env_keep": "keep_cached_dataframe", "env_depth": "validation_depth"}


def _expected(fn, val):
    if fn == "env_enabled":
        return {"False": False, "True": True, None: True}.get(val, "unspecified")
    if fn in ("env_cache", "env_keep"):
        return {"False": False, "True": True, None: False}.get(val, "unspecified")
    return val if val in (None, "SCHEMA_ONLY", "DATA_ONLY", "SCHEMA_AND_DATA") else "unspecified"


def _replay_env(fn, val):
    """replay on the real code: a fresh interpreter with the real environment variable set, reading pandera.config.CONFIG"""
    if not (val is None or isinstance(val, str)) or "\x00" in (val or ""):
        return False, "counterexample value cannot be placed in an environment variable"
    env = {k: x for k, x in os.environ.items() if not k.startswith("PANDERA_")}
    if val is not None:
        env[ENV_NAME[fn]] = val
    code = f"import pandera.config as c; x = c.CONFIG.{ENV_ATTR[fn]}; print(repr(getattr(x, 'value', x)))"
    p = subprocess.run([sys.executable, "-c", code], capture_output=True, text=True, env=env)
    got = p.stdout.strip().splitlines()[-1] if p.stdout.strip() else "exception: " + p.stderr.strip()[-150:]
    exp = _expected(fn, val)
    if exp == "unspecified":
        return False, f"value {val!r} is outside the documented vocabulary; got {got}"
    return (got != repr(exp)), f"{ENV_NAME[fn]}={val!r}: CONFIG.{ENV_ATTR[fn]} = {got}, documented: {exp!r}"


def replay(c):
    fn = c["label"]
    ok, detail = _replay_env(fn, c["vals"]["value"])
    print(detail)
    if ok:
        print(f"VIOLATION property=C18 replay=(env) {detail}")
        return 1
    print("not reproduced")
    return 0


def templates(tier, seed):
    ts = []
    for depth, rich in (((1, 1), (2, 1), (3, 1), (4, 0)) if tier == "quick" else ((1, 1), (2, 2), (3, 2), (4, 1))):
        ts.append(Template(f"CFG/nesting={depth}/rich_levels={rich}", cfg_nest_case, (depth, rich), max_paths=80000, budget_s=150 if tier == "quick" else 1500))
    for fn in CH_CONDS:
        ts.append(Template(f"ENV/{fn}", ch_case, (fn,)))
    N = 2
    for shape in ("series", "frame", "column", "model"):
        ts.append(Template(f"DIS/{shape}/N={N}", disabled_case, (shape, N)))
    for shape in ("series", "frame", "frame_missing", "frame_extra", "frame_wrongtype", "frame_dup_labels"):
        for lazy in (False, True):
            for n in ((N,) if tier == "quick" else (1, 2, 3)):
                ts.append(Template(f"DEPTH/{shape}/lazy={int(lazy)}/N={n}", depth_case, (shape, n, lazy)))
    ts.append(Template("PLD/get_validation_depth", polars_depth_case, ()))
    import tmpl_pl

    ts += [Template(tid, tmpl.pick(fn, ["depth"]), args) for tid, fn, args in tmpl_pl.depth_cases(tier)]
    return ts
