"""C20 — head/tail/sample validate exactly the requested rows and return the whole object (pandas part).

sample() is a nondeterministic stub: any n distinct rows (one solver Boolean per position), the same rows for the same
(n, random_state) within a path; on the real side the replay forces the model's choice through a DataFrame subclass."""
import itertools

import tmpl
from pvrun import Template

PROPERTY = "C20"
LABELS = ["subsample"]
t_sub = tmpl.pick(tmpl.subsample_case, LABELS)
STUBS = ["Series/DataFrame.sample(n, random_state): any n distinct present rows; same arguments -> same rows within a path"]


def templates(tier, seed):
    ts = []
    for N in ((2, 3) if tier == "quick" else (1, 2, 3, 4)):
        for shape in ("series", "series_nulls", "frame", "frame_wide", "model"):
            for k in range(0, 4):
                for which in itertools.combinations(("head", "tail", "sample"), k):
                    if tier == "quick" and (N == 3 and (len(which) != 2 or shape in ("frame_wide", "model", "series_nulls"))):
                        continue
                    ts.append(Template(f"{shape}/{'+'.join(which) or 'none'}/N={N}", t_sub, (shape, N, list(which))))
    if tier != "quick":  # five rows: head, tail and sample can each take two rows and still leave one row unselected
        for shape in ("series", "frame"):
            for which in (["head", "tail"], ["head", "sample"], ["head", "tail", "sample"]):
                ts.append(Template(f"{shape}/{'+'.join(which)}/N=5", t_sub, (shape, 5, list(which))))
    t_idx = tmpl.pick(tmpl.subsample_index_case, LABELS)
    for N in ((2, 3) if tier == "quick" else (1, 2, 3, 4)):
        for shape in ("series_index", "index_alone"):
            for which in (["head"], ["tail"], ["head", "tail"], []):
                if tier == "quick" and N == 3 and which != ["head", "tail"]:
                    continue
                ts.append(Template(f"IDX/{shape}/{'+'.join(which) or 'none'}/N={N}", t_idx, (shape, N, which)))
    import tmpl_pl

    ts += [Template(tid, tmpl.pick(fn, LABELS), args) for tid, fn, args in tmpl_pl.subsample_cases(tier)]
    return ts
