"""C01 — validation verdict equals the declared schema semantics (pandas); accepted output equals the input.

Every template runs the REAL pandera validate on a symbolic frame; per path the obligation
`accepted <=> oracle(S, D)` is discharged by z3, where the oracle is assembled from the documentation
(pvoracle) and never calls pandera."""
import numpy as np
import z3

from pvinstall import install

install()
import pandera as pa  # noqa: E402
from pandera import Check  # noqa: E402

import pvharness as H  # noqa: E402
import pvoracle as O  # noqa: E402
from pvrun import Template  # noqa: E402

PROPERTY = "C01"
FUNCTIONS_ENCODED = [
    "pandera.api.pandas.container.DataFrameSchema.validate/_validate", "pandera.api.pandas.array.SeriesSchema.validate",
    "pandera.api.pandas.components.Column/Index/MultiIndex.validate",
    "pandera.backends.pandas.container.DataFrameSchemaBackend.{validate,collect_column_info,collect_schema_components,"
    "strict_filter_columns,check_column_names_are_unique,check_column_presence,check_column_values_are_unique,"
    "run_schema_component_checks,run_checks,run_checks_and_handle_errors}",
    "pandera.backends.pandas.array.ArraySchemaBackend.{validate,run_checks_and_handle_errors,check_name,check_nullable,"
    "check_unique,check_dtype,run_checks}",
    "pandera.backends.pandas.components.{ColumnBackend.validate,ColumnBackend.get_regex_columns,ColumnBackend.run_checks,"
    "IndexBackend.validate,MultiIndexBackend.validate}",
    "pandera.backends.pandas.checks.PandasCheckBackend.{preprocess*,apply*,postprocess*,_get_series_failure_cases}",
    "pandera.backends.pandas.base.PandasSchemaBackend.{run_check,subsample}",
    "pandera.backends.pandas.builtin_checks.* (all 15 built-ins)", "pandera.api.checks.Check.{__call__,<builtin constructors>}",
    "pandera.validation_depth.validate_scope", "pandera.api.base.error_handler.ErrorHandler.collect_error",
]
BOUNDS = {
    "quick": {"rows": "N in {0,1,2,3} (Series templates), N=2 (frame templates)", "columns": "<= 3 data columns, concrete labels",
              "checks_per_column": "1 (Series), <= 1 (frames)", "integers": "|x| <= 2^31", "floats": "Real + NaN flag, |x| <= 2^31",
              "strings": "z3 String over printable ASCII", "per_query_timeout_s": 10},
    "thorough": {"rows": "N <= 4 (Series templates), N <= 3 (frame templates)", "columns": "<= 3 data columns, concrete labels",
                 "checks_per_column": "<= 2", "integers": "|x| <= 2^31", "floats": "Real + NaN flag", "per_query_timeout_s": 60},
}
STUBS = ["str()/format() of symbolic values return placeholders (message text is never asserted)",
         "Series.astype(str) returns a placeholder series"]
ASSUMPTIONS = [
    "shape families (number of rows/columns, which checks) are enumerated, not solved for",
    "symframe models the pandas API subset pandera's backend uses; validated per path by replaying a solver model on real pandas",
    "floats are reals plus a NaN flag (no inf, no -0.0, no rounding): pandera only compares cell values",
    "ignore_na=False: the documented element predicate on a missing value is a comparison with a missing value (false; true for ne/notin)",
]
EXPLANATION = "per path: pc ∧ assumptions ∧ ¬(accepted ⇔ oracle) must be unsat; on acceptance output ≡ input cell-wise"


# ------------------------------------------------------------------ T1: SeriesSchema × built-in × ignore_na
def t_series(v, kind, cname, N, ina, pat=None):
    ser = v.series("x", kind, N, sname="s", labels="l")
    snap = H.snapshot(ser)
    mk = O.numeric_check if kind in ("int", "float") else O.string_check
    cs = mk(v, cname, ina, **({"pat": pat} if pat else {}))
    fs = O.FieldSpec(kind, nullable=v.bool("nullable"), unique=v.bool("unique"), checks=[cs], name="s",
                     report_duplicates=v.choice("rd", ["all", "exclude_first", "exclude_last"]))
    try:
        schema = O.build_series_schema(pa, Check, fs, v)
    except ValueError:
        # argument validation of the constructor (documented: "max_value must not be smaller than min_value")
        return dict(obs=None, asserts=[("ctor_error_iff_documented", v.holds(_ctor_rejects(v, cs)))], facts=dict(kind="ctor ValueError"))
    o = H.outcome(lambda: schema.validate(ser))
    xs, ns = v.cells("x", kind, N, kind in ("float", "str"))
    spec = z3.And(fs.satisfied(v, xs, ns), z3.Not(_ctor_rejects(v, cs)))
    asserts = [("verdict", v.iff(o["kind"] == "accept", spec))]
    if o["kind"] == "accept":
        asserts.append(("output_equals_input", H.equal_to_snapshot(v, o["out"], snap)))
    return dict(obs=o, asserts=asserts, facts=dict(kind=o["kind"], reason=o.get("reason")))


def _ctor_rejects(v, cs):
    """documented constructor errors of the built-ins: in_range with min > max (or = when a bound is exclusive)."""
    if cs.name == "in_range":
        a, b = v.z(cs.P["a"]), v.z(cs.P["b"])
        return z3.Or(a > b, z3.And(a == b, z3.Or(z3.Not(v.z(cs.P["imin"])), z3.Not(v.z(cs.P["imax"])))))
    if cs.name == "str_length":  # documented: at least one of min_value / max_value must be given
        return z3.BoolVal(cs.P.get("minl") is None and cs.P.get("maxl") is None)
    return z3.BoolVal(False)


# ------------------------------------------------------------------ T2/T3: DataFrameSchema over column arrangements
KINDS = {"a": "float", "b": "int", "x": "int", "a1": "float", "a2": "float", "ba3": "float", "s": "str"}


def t_frame(v, arrangement, strict, ordered, N, opts):
    arr = [(c, opts.get("kinds", KINDS)[c]) for c in arrangement]
    df = v.frame(arr, N, labels="l")
    snap = H.snapshot(df)
    ca = O.numeric_check(v, opts.get("check_a", "ge"), True, tag="A")
    cb = O.numeric_check(v, opts.get("check_b", "isin"), True, tag="B")
    fa = O.FieldSpec("float", nullable=v.bool("nullable"), unique=v.bool("unique_a"), checks=[ca], regex=bool(opts.get("regex")))
    fb = O.FieldSpec("int", checks=[cb], required=v.bool("req_b") if not opts.get("b_required_concrete") else True)
    key_a = opts.get("regex") or "a"
    spec = O.FrameSpec({key_a: fa, "b": fb}, strict=strict, ordered=ordered, unique=opts.get("unique"),
                       report_duplicates=opts.get("report_duplicates", "all"))
    o = H.outcome(lambda: spec.build(pa, Check).validate(df))
    cells = {}
    for c, k in arr:
        cells[c] = v.cells(f"{c}_", k, N, k in ("float", "str"))
    # the label-level part depends on the symbolic `required` flag of b: split on it in the oracle
    req_b = v.z(fb.required)
    fb_req, fb_opt = True, False
    sat = []
    for req in (True, False):
        fb.required = req
        sat.append(spec.satisfied(v, arr, cells))
    fb.required = v.bool("req_b") if not opts.get("b_required_concrete") else True
    oracle = z3.If(req_b, sat[0], sat[1])
    asserts = [("verdict", v.iff(o["kind"] == "accept", oracle))]
    if o["kind"] == "accept" and strict != "filter":
        asserts.append(("output_equals_input", H.equal_to_snapshot(v, o["out"], snap)))
    return dict(obs=o, asserts=asserts, facts=dict(kind=o["kind"], reason=o.get("reason")))


ARRANGEMENTS = (["a", "b"], ["b", "a"], ["a"], ["b"], ["a", "b", "x"], ["x", "a", "b"], ["a", "x", "b"])


def templates(tier, seed):
    ts = []
    Ns = (0, 1, 2, 3) if tier == "quick" else (0, 1, 2, 3, 4)
    for kind, names in (("float", O.NUMERIC_CHECKS), ("int", O.NUMERIC_CHECKS if tier == "thorough" else ["ge", "in_range", "isin"]),
                        ("str", O.STRING_CHECKS)):
        for cname in names:
            for ina in (True, False):
                pats = [None]
                if cname in ("str_contains", "str_matches"):
                    pats = O.STR_PATTERNS if tier == "thorough" else O.STR_PATTERNS[:2]
                for pat in pats:
                    for N in Ns:
                        if tier == "quick" and N in (0, 1) and (ina is False or kind == "int"):
                            continue
                        if tier == "quick" and N == 3 and not (kind == "float" and cname in ("in_range", "ne", "le") and ina):
                            continue
                        tid = f"T1/{kind}/{cname}/ina={int(ina)}/N={N}" + (f"/pat={O.STR_PATTERNS.index(pat)}" if pat else "")
                        ts.append(Template(tid, t_series, (kind, cname, N, ina, pat), twin="verdict" if N > 0 else None))
    Nf = (2,) if tier == "quick" else (1, 2, 3)
    for N in Nf:
        for arr in ARRANGEMENTS:
            for strict in (False, True, "filter"):
                for ordered in (False, True):
                    if tier == "quick" and N == 2 and ordered and strict == "filter" and arr in (["a"], ["b"]):
                        continue
                    ts.append(Template(f"T2/{''.join(arr)}/strict={strict}/ordered={int(ordered)}/N={N}", t_frame,
                                       (arr, strict, ordered, N, {}), twin="verdict" if arr in (["a", "b"], ["b", "a"]) and not ordered else None))
        for rd in ("all", "exclude_first", "exclude_last"):
            ts.append(Template(f"T2/joint_unique/rd={rd}/N={N}", t_frame, (["a", "b"], False, False, N, {"unique": ["a", "b"], "report_duplicates": rd}), twin="verdict"))
        # T3 regex columns: prefix-match vs search vs fullmatch semantics differ on these labels
        for pattern in ("a[0-9]", "^a[0-9]$"):
            for arr in (["a1", "a2", "b"], ["a1", "ba3", "b"], ["ba3", "b"], ["b", "a2"]):
                for strict in (False, True):
                    ts.append(Template(f"T3/{pattern}/{''.join(arr)}/strict={strict}/N={N}", t_frame,
                                       (arr, strict, False, N, {"regex": pattern}), twin=None))
    return ts
