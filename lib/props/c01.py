"""C01 — validation verdict equals the declared schema semantics (pandas); accepted output equals the input.

Every template runs the REAL pandera validate on a symbolic frame; per path the obligation
`accepted <=> oracle(S, D)` is discharged by z3, where the oracle is assembled from the documentation
(pvoracle) and never calls pandera."""
import numpy as np
import z3

from pvinstall import install

install()
import pandera as pa  # noqa: E402
from pandera import Check  # noqa: E402

import pvharness as H  # noqa: E402
import pvoracle as O  # noqa: E402
from pvrun import Template  # noqa: E402

PROPERTY = "C01"
FUNCTIONS_ENCODED = [
    "pandera.api.pandas.container.DataFrameSchema.validate/_validate", "pandera.api.pandas.array.SeriesSchema.validate",
    "pandera.api.pandas.components.Column/Index/MultiIndex.validate",
    "pandera.backends.pandas.container.DataFrameSchemaBackend.{validate,collect_column_info,collect_schema_components,"
    "strict_filter_columns,check_column_names_are_unique,check_column_presence,check_column_values_are_unique,"
    "run_schema_component_checks,run_checks,run_checks_and_handle_errors}",
    "pandera.backends.pandas.array.ArraySchemaBackend.{validate,run_checks_and_handle_errors,check_name,check_nullable,"
    "check_unique,check_dtype,run_checks}",
    "pandera.backends.pandas.components.{ColumnBackend.validate,ColumnBackend.get_regex_columns,ColumnBackend.run_checks,"
    "IndexBackend.validate,MultiIndexBackend.validate}",
    "pandera.backends.pandas.checks.PandasCheckBackend.{preprocess*,apply*,postprocess*,_get_series_failure_cases}",
    "pandera.backends.pandas.base.PandasSchemaBackend.{run_check,subsample}",
    "pandera.backends.pandas.builtin_checks.* (all 15 built-ins)", "pandera.api.checks.Check.{__call__,<builtin constructors>}",
    "pandera.validation_depth.validate_scope", "pandera.api.base.error_handler.ErrorHandler.collect_error",
]
BOUNDS = {
    "quick": {"rows": "N in {0,1,2,3} (Series templates), N=2 (frame templates)", "columns": "<= 3 data columns, concrete labels",
              "checks_per_column": "1 (Series), <= 1 (frames)", "integers": "|x| <= 2^31", "floats": "Real + NaN flag, |x| <= 2^31",
              "strings": "z3 String over printable ASCII", "per_query_timeout_s": 10},
    "thorough": {"rows": "N <= 4 (Series templates), N <= 3 (frame templates)", "columns": "<= 3 data columns, concrete labels",
                 "checks_per_column": "<= 2", "integers": "|x| <= 2^31", "floats": "Real + NaN flag", "per_query_timeout_s": 60},
}
STUBS = ["str()/format() of symbolic values return placeholders (message text is never asserted)",
         "Series.astype(str) returns a placeholder series"]
ASSUMPTIONS = [
    "shape families (number of rows/columns, which checks) are enumerated, not solved for",
    "symframe models the pandas API subset pandera's backend uses; validated per path by replaying a solver model on real pandas",
    "floats are reals plus a NaN flag (no inf, no -0.0, no rounding): pandera only compares cell values",
    "ignore_na=False: the documented element predicate on a missing value is a comparison with a missing value (false; true for ne/notin)",
]
EXPLANATION = "per path: pc ∧ assumptions ∧ ¬(accepted ⇔ oracle) must be unsat; on acceptance output ≡ input cell-wise"


import tmpl  # noqa: E402

LABELS = ["verdict", "output_equals_input", "ctor_error_iff_documented"]
t_series = tmpl.pick(tmpl.series_case, LABELS)
t_frame = tmpl.pick(tmpl.frame_case, LABELS)

ARRANGEMENTS = (["a", "b"], ["b", "a"], ["a"], ["b"], ["a", "b", "x"], ["x", "a", "b"], ["a", "x", "b"])


def templates(tier, seed):
    ts = []
    Ns = (0, 1, 2, 3) if tier == "quick" else (0, 1, 2, 3, 4)
    for kind, names in (("float", O.NUMERIC_CHECKS), ("int", O.NUMERIC_CHECKS if tier == "thorough" else ["ge", "in_range", "isin"]),
                        ("str", O.STRING_CHECKS)):
        for cname in names:
            for ina in (True, False):
                pats = [None]
                if cname in ("str_contains", "str_matches"):
                    pats = O.STR_PATTERNS if tier == "thorough" else [O.STR_PATTERNS[0], O.STR_PATTERNS[1], O.STR_PATTERNS[4]]
                for pat in pats:
                    for N in Ns:
                        if tier == "quick" and N in (0, 1) and (ina is False or kind == "int"):
                            continue
                        if tier == "quick" and N == 3 and not (kind == "float" and cname in ("in_range", "ne", "le") and ina):
                            continue
                        tid = f"T1/{kind}/{cname}/ina={int(ina)}/N={N}" + (f"/pat={O.STR_PATTERNS.index(pat)}" if pat else "")
                        ts.append(Template(tid, t_series, (kind, cname, N, ina, pat), twin="verdict" if N > 0 else None))
    # nullable integer extension dtype: kind 'i' like int64, but cells can be <NA>
    for cname in ("ge", "isin", "in_range", "ne") if tier == "thorough" else ("ge", "isin"):
        for N in ((2,) if tier == "quick" else (1, 2, 3)):
            ts.append(Template(f"T1/Int64/{cname}/ina=1/N={N}", t_series, ("Int", cname, N, True, None), twin="verdict"))
    Nf = (2,) if tier == "quick" else (1, 2, 3)
    for N in Nf:
        for arr in ARRANGEMENTS:
            for strict in (False, True, "filter"):
                for ordered in (False, True):
                    if tier == "quick" and N == 2 and ordered and strict == "filter" and arr in (["a"], ["b"]):
                        continue
                    ts.append(Template(f"T2/{''.join(arr)}/strict={strict}/ordered={int(ordered)}/N={N}", t_frame,
                                       (arr, strict, ordered, N, {}), twin="verdict" if arr in (["a", "b"], ["b", "a"]) and not ordered else None))
        for rd in ("all", "exclude_first", "exclude_last"):
            ts.append(Template(f"T2/joint_unique/rd={rd}/N={N}", t_frame, (["a", "b"], False, False, N, {"unique": ["a", "b"], "report_duplicates": rd}), twin="verdict"))
        for tag, sets in (("ax+ab", [["a", "x"], ["a", "b"]]), ("ab+ax", [["a", "b"], ["a", "x"]]), ("b+ax+a", [["b"], ["a", "x"], ["a"]])):
            for lazy in (False, True):  # several jointly unique sets: each of them must hold, whatever its position in the list
                if tier == "quick" and (tag, lazy) not in (("ax+ab", False), ("ab+ax", True), ("b+ax+a", False)):
                    continue
                ts.append(Template(f"T2/joint_unique_sets/{tag}/lazy={int(lazy)}/N={N}", t_frame,
                                   (["a", "b", "x"], False, False, N, {"unique": sets, "lazy": lazy}), twin="verdict"))
        # T3 regex columns: prefix-match vs search vs fullmatch semantics differ on these labels
        for pattern in ("a[0-9]", "^a[0-9]$"):
            for arr in (["a1", "a2", "b"], ["a1", "ba3", "b"], ["ba3", "b"], ["b", "a2"]):
                for strict in (False, True, "filter"):
                    ts.append(Template(f"T3/{pattern}/{''.join(arr)}/strict={strict}/N={N}", t_frame,
                                       (arr, strict, False, N, {"regex": pattern}), twin=None))
    # T4 index schemas (Index on a frame / on a series, two-level MultiIndex), T5 physical dtypes, T6 dataframe-level and multiple checks
    t_index = tmpl.pick(tmpl.index_case, LABELS)
    t_wide = tmpl.pick(tmpl.wide_case, LABELS)
    for N in ((2,) if tier == "quick" else (0, 1, 2, 3)):
        for shape in ("frame_index", "series_index", "frame_multiindex"):
            for lazy in (False, True):
                ts.append(Template(f"T4/{shape}/lazy={int(lazy)}/N={N}", t_index, (shape, N, dict(lazy=lazy)), twin="verdict" if N else None))
        for rd in ("exclude_first", "exclude_last"):
            ts.append(Template(f"T4/frame_index/rd={rd}/N={N}", t_index, ("frame_index", N, dict(rd=rd))))
        for iname, sname in (("i", "i"), ("i", "j"), (None, "j"), ("i", None)):
            ts.append(Template(f"T4/frame_index/name={iname}-{sname}/N={N}", t_index, ("frame_index", N, dict(index_name=iname, schema_index_name=sname))))
        for shape in ("rowwise", "scalar", "element_wise", "two_checks", "groupby", "frame_builtin", "falsy_labels"):
            if shape == "groupby" and N < 1:
                continue
            for lazy in (False, True):
                ts.append(Template(f"T6/{shape}/lazy={int(lazy)}/N={N}", t_wide, (shape, N, dict(lazy=lazy)), twin="verdict" if N else None))
        for kinds in ({"a": "int"}, {"b": "float"}, {"a": "str"}, {"a": "bool"}):
            tag = "+".join(f"{k}={x}" for k, x in kinds.items())
            ts.append(Template(f"T5/wrong_dtype/{tag}/N={N}", t_frame, (["a", "b"], False, False, N, {"kinds": dict(tmpl.KINDS, **kinds)})))
    for N in ((0, 1) if tier == "quick" else (0,)):  # (N=1 is part of the thorough T2 family already)
        ts.append(Template(f"T2/ab/strict=False/ordered=0/N={N}", t_frame, (["a", "b"], False, False, N, {})))
    for N in ((2,) if tier == "quick" else (0, 1, 2, 3)):
        for lazy in (False, True):
            ts.append(Template(f"T5/schema_dtype/lazy={int(lazy)}/N={N}", tmpl.pick(tmpl.schema_dtype_case, LABELS), (N, dict(coerce=False, lazy=lazy))))
    # label level with three declared columns (two of them optional or required, chosen by the solver) over every arrangement
    import itertools

    from props import c08

    def t_lbl(v, *a):
        r = c08.label_twin3_case(v, *a)
        r["asserts"] = [("verdict", c) for l, c in r["asserts"] if l == "backend_equiv/label_pandas_as_documented"]
        return r

    for k in (1, 2, 3):
        for sub in itertools.permutations(["a", "b", "c"], k):
            for strict in (False, True, "filter"):
                for ordered in (False, True):
                    ts.append(Template(f"T2L/{''.join(sub)}/strict={strict}/ordered={int(ordered)}", t_lbl, (list(sub), strict, ordered)))
    for arr in (["a", "x", "c"], ["x", "a", "b", "c"], ["a", "b", "x", "c"]):
        for strict in (False, True, "filter"):
            ts.append(Template(f"T2L/{''.join(arr)}/strict={strict}/ordered=1", t_lbl, (arr, strict, True)))
    return ts
