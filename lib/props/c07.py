"""C07 — validation outcomes do not depend on thread interleaving: bounded model checking of schedules.

Sub-model 1 (configuration protocol): every real validate call is traced alone (its sequence of config operations);
the semantics of the operations are extracted from the real pandera/config.py by symx; one z3 query per question asks
for a schedule of the traced operations in which a read observes a value different from its solo value, or after
which the configuration differs from the initial one.  Sub-model 2 (shared schema attributes): solo traces of
reads/writes of coerce/dtype/name on the components of one schema shared by two validate calls; z3 looks for an order
in which a read observes another thread's temporary write, or a restore writes back a foreign value.  Every schedule
found is replayed on real OS threads under a deterministic scheduler before it is reported."""
import contextlib
import sys
import threading
import time
import warnings

import z3

warnings.filterwarnings("ignore")
from pvinstall import install  # noqa: E402

install()
import pandas as pd  # noqa: E402
import polars as pl  # noqa: E402
import pandera as pa  # noqa: E402
import pandera.polars as pap  # noqa: E402
from pandera import Check  # noqa: E402
from pandera import config as cfg  # noqa: E402
from pandera.config import PanderaConfig, ValidationDepth  # noqa: E402

import pvharness as H  # noqa: E402
from pvrun import Template  # noqa: E402
from symx import Engine, set_engine  # noqa: E402

PROPERTY = "C07"
FUNCTIONS_ENCODED = ["pandera.config.{config_context.__enter__,config_context.__exit__,get_config_context,reset_config_context} (transition terms extracted by symx)",
                     "operation traces of pandera.api.polars.container.DataFrameSchema.validate, pandera.api.polars.components.Column.validate, "
                     "pandera.api.pandas.container.DataFrameSchema.validate (config operations); attribute read/write traces of "
                     "pandera.backends.pandas.container.run_schema_component_checks/_coerce_dtype_helper and pandera.backends.pandas.components.ColumnBackend.validate"]
BOUNDS = {"quick": {"threads": 2, "preemption": "at configuration operations / schema attribute accesses only"},
          "thorough": {"threads": "2 and 3", "preemption": "at configuration operations / schema attribute accesses only"}}
ASSUMPTIONS = ["preemption only at the traced operation boundaries: every schedule found is real (replayed on OS threads); schedules preempting inside an operation are not explored",
               "predictive model: exact up to the first read that differs from the solo run; the replay decides what happens after it",
               "MODEL_CACHE / BACKEND_REGISTRY lazy fill (idempotent writes) outside the model"]
D = [None, ValidationDepth.SCHEMA_ONLY, ValidationDepth.DATA_ONLY, ValidationDepth.SCHEMA_AND_DATA]
ORIG = {n: getattr(cfg, n) for n in ("config_context", "get_config_context", "reset_config_context", "get_config_global")}


# ------------------------------------------------------------------ instrumentation by identity
class Hooks:
    def __init__(self):
        self.on_op = lambda name, kw: None
        self.on_result = lambda v: None
        self.installed = 0

    def install(self):
        if self.installed:
            return self.installed
        hooks = self
        orig_cc, orig_get = ORIG["config_context"], ORIG["get_config_context"]

        @contextlib.contextmanager
        def config_context(*a, **kw):
            hooks.on_op("enter", kw)
            cm = orig_cc(*a, **kw)
            cm.__enter__()
            try:
                yield
            finally:
                hooks.on_op("exit", None)
                cm.__exit__(None, None, None)

        def get_config_context(*a, **kw):
            hooks.on_op("get_raw" if ("validation_depth_default" in kw and kw["validation_depth_default"] is None) else "get", kw)
            r = orig_get(*a, **kw)
            hooks.on_result(r.validation_depth)
            return r

        repl = {id(orig_cc): config_context, id(orig_get): get_config_context}
        n = 0
        for mname, mod in list(sys.modules.items()):
            if not mname.startswith("pandera") or mod is None or mname == "pandera.config":
                continue
            for k, val in list(vars(mod).items()):
                if id(val) in repl:
                    setattr(mod, k, repl[id(val)])
                    n += 1
        self.installed = n
        return n


HOOKS = Hooks()


def outcome_of(f):
    try:
        f()
        return "returned"
    except Exception as e:  # noqa: BLE001
        return type(e).__name__


def make_calls(scenario):
    """name -> zero-argument callable performing ONE real validate call"""
    pl_schema = pap.DataFrameSchema({"a": pap.Column(int, Check.gt(0))})
    pl_col = pap.Column(int, Check.gt(0), name="a")
    pd_schema = pa.DataFrameSchema({"a": pa.Column(int, Check.gt(0))})
    bad_df, ok_df = pl.DataFrame({"a": [-1]}), pl.DataFrame({"a": [1]})
    bad_lf, ok_lf = pl.LazyFrame({"a": [-1]}), pl.LazyFrame({"a": [1]})
    table = {
        "pl.validate(LazyFrame ok)": lambda: pl_schema.validate(ok_lf),
        "pl.validate(LazyFrame bad)": lambda: pl_schema.validate(bad_lf),
        "pl.validate(DataFrame bad)": lambda: pl_schema.validate(bad_df),
        "pl.validate(DataFrame ok)": lambda: pl_schema.validate(ok_df),
        "pl.Column.validate(DataFrame bad)": lambda: pl_col.validate(bad_df),
        "pd.validate(DataFrame bad)": lambda: pd_schema.validate(pd.DataFrame({"a": [-1]})),
        "pd.validate(DataFrame ok)": lambda: pd_schema.validate(pd.DataFrame({"a": [1]})),
        "user config_context(SCHEMA_ONLY)": lambda: _user_block(ValidationDepth.SCHEMA_ONLY, pd_schema),
    }
    return {f"T{i + 1}": (name, table[name]) for i, name in enumerate(scenario)}


def _user_block(depth, pd_schema):
    import pandera.config as c

    with sys.modules["pandera.api.pandas.container"].__dict__.get("config_context", c.config_context)(validation_depth=depth):
        pd_schema.validate(pd.DataFrame({"a": [1]}))


def trace(f):
    ops = []
    HOOKS.on_op = lambda name, kw: ops.append([name, (kw or {}).get("validation_depth") if name == "enter" else None])
    HOOKS.on_result = lambda v: ops[-1].__setitem__(1, v)
    out = outcome_of(f)
    HOOKS.on_op = lambda name, kw: None
    HOOKS.on_result = lambda v: None
    return ops, out


def extract_semantics():
    """transition terms of enter/exit/get/get_raw over (S_d: state at the operation, T_d: state at exit time,
    ARG_d: the depth argument) from the real pandera/config.py"""
    e = Engine()
    set_engine(e)
    S_d, T_d, ARG_d = z3.Int("S_d"), z3.Int("T_d"), z3.Int("ARG_d")
    e.assume(z3.And(S_d >= 0, S_d <= 3, T_d >= 0, T_d <= 3, ARG_d >= 0, ARG_d <= 3))

    def choice(z, opts):
        for i, o in enumerate(opts[:-1]):
            if e.branch(z == i):
                return o
        e.branch(z == len(opts) - 1)
        return opts[-1]

    def ite(paths):
        t = paths[-1][1]
        for pc, val in reversed(paths[:-1]):
            t = z3.If(z3.And(*pc) if pc else z3.BoolVal(True), val, t)
        return z3.simplify(t)

    def extract(fn):
        ps = e.explore(fn)
        assert all(p.kind == "ret" for p in ps), ps
        return ite([(p.pc, p.value) for p in ps]), len(ps)

    def setd(z):
        # only the public functions are used to set and read the state, whatever storage pandera.config uses
        ORIG["reset_config_context"](PanderaConfig(validation_depth=choice(z, D)))

    def rd():
        return z3.IntVal(D.index(ORIG["get_config_context"](validation_depth_default=None).validation_depth))

    saved = ORIG["get_config_context"](validation_depth_default=None)

    def _enter():
        setd(S_d)
        cm = ORIG["config_context"](validation_depth=choice(ARG_d, D))
        cm.__enter__()
        return rd()

    def _exit():
        setd(S_d)
        cm = ORIG["config_context"](validation_depth=choice(ARG_d, D))
        cm.__enter__()
        setd(T_d)
        cm.__exit__(None, None, None)
        return rd()

    def _get():
        setd(S_d)
        return z3.IntVal(D.index(ORIG["get_config_context"]().validation_depth))

    def _get_raw():
        setd(S_d)
        return z3.IntVal(D.index(ORIG["get_config_context"](validation_depth_default=None).validation_depth))

    try:
        sem, npaths = {}, 0
        for name, fn in (("enter", _enter), ("exit", _exit), ("get", _get), ("get_raw", _get_raw)):
            sem[name], k = extract(fn)
            npaths += k
    finally:
        ORIG["reset_config_context"](saved)
    return sem, (S_d, T_d, ARG_d), npaths, e.queries


def shared_across_threads():
    """concrete probe: is the context configuration visible across OS threads at all?"""
    seen = {}
    with ORIG["config_context"](validation_depth=ValidationDepth.DATA_ONLY):
        th = threading.Thread(target=lambda: seen.setdefault("d", ORIG["get_config_context"](validation_depth_default=None).validation_depth))
        th.start()
        th.join()
    return seen.get("d") is ValidationDepth.DATA_ONLY


def bmc(prog, sem, syms, query, init_idx, shared, max_solutions=6):
    S_d, T_d, ARG_d = syms

    def sub(term, S=None, T=None, A=None):
        pairs = []
        if S is not None:
            pairs.append((S_d, S))
        if T is not None:
            pairs.append((T_d, T))
        if A is not None:
            pairs.append((ARG_d, A))
        return z3.substitute(term, *pairs)

    threads = list(prog)
    match = {}
    for t in threads:
        st = []
        for k, (op, _) in enumerate(prog[t]):
            if op == "enter":
                st.append(k)
            elif op == "exit":
                match[(t, k)] = st.pop()
    L = sum(len(p) for p in prog.values())
    solver = z3.Solver()
    solver.set("timeout", 120000)
    init = z3.IntVal(init_idx)
    # thread-local storage (not shared): every thread has its own state, so interleaving cannot matter
    state = {t: init for t in threads} if not shared else {"*": init}
    key = (lambda t: t) if not shared else (lambda t: "*")
    pc = {t: z3.IntVal(0) for t in threads}
    outer = {}
    sched = [z3.Int(f"c{i}") for i in range(L)]
    diverge = []
    for step in range(L):
        c = sched[step]
        solver.add(c >= 0, c < len(threads))
        nstate = dict(state)
        for ti, t in enumerate(threads):
            act = c == ti
            solver.add(z3.Implies(act, pc[t] < len(prog[t])))
            cur = state[key(t)]
            for k, (op, val) in enumerate(prog[t]):
                here = z3.And(act, pc[t] == k)
                if op in ("get", "get_raw"):
                    obs = sub(sem[op], S=cur)
                    diverge.append((t, k, z3.And(here, obs != D.index(val)), obs))
                elif op == "enter":
                    outer[(t, k)] = z3.If(here, cur, outer.get((t, k), z3.IntVal(0)))
                    nstate[key(t)] = z3.If(here, sub(sem["enter"], S=cur, A=z3.IntVal(D.index(val))), nstate[key(t)])
                elif op == "exit":
                    ek = match[(t, k)]
                    nstate[key(t)] = z3.If(here, sub(sem["exit"], S=outer[(t, ek)], T=cur, A=z3.IntVal(D.index(prog[t][ek][1]))), nstate[key(t)])
            pc[t] = z3.If(act, pc[t] + 1, pc[t])
        state = nstate
    for t in threads:
        solver.add(pc[t] == len(prog[t]))
    if query == "read":
        solver.add(z3.Or(*[d for _, _, d, _ in diverge]) if diverge else z3.BoolVal(False))
    else:
        solver.add(z3.Or(*[s != init for s in state.values()]))
    sols, t0 = [], time.time()
    nq = 0
    while len(sols) < max_solutions:
        nq += 1
        r = str(solver.check())
        if r != "sat":
            break
        m = solver.model()
        schedule = [threads[m.eval(c, model_completion=True).as_long()] for c in sched]
        hit = [(t, k) for t, k, d, _ in diverge if z3.is_true(m.eval(d, model_completion=True))]
        sols.append(dict(schedule=schedule, divergent_reads=sorted(set(hit))))
        # block this class of violation: same set of divergent (thread, read) pairs / same final corruption
        if query == "read" and hit:
            # (a read has one divergence term per step: it diverges if it does so at the step where it happens)
            solver.add(z3.Not(z3.And(*[z3.Or(*[d for t2, k2, d, _ in diverge if (t2, k2) == (t, k)]) for t, k in sorted(set(hit))])))
        else:
            break
    return dict(result=r if not sols else "sat", solutions=sols, steps=L, queries=nq, solver_s=round(time.time() - t0, 3))


class Scheduler:
    def __init__(self, schedule, names):
        self.schedule, self.pos, self.names = list(schedule), 0, set(names)
        self.cv = threading.Condition()
        self.done = set()

    def on_op(self, name, kw):
        me = threading.current_thread().name
        if me not in self.names:
            return
        with self.cv:
            while self.pos < len(self.schedule) and self.schedule[self.pos] != me:
                if self.schedule[self.pos] in self.done:
                    self.pos += 1
                    self.cv.notify_all()
                    continue
                if not self.cv.wait(timeout=5):
                    break
            if self.pos < len(self.schedule) and self.schedule[self.pos] == me:
                self.pos += 1
            self.cv.notify_all()

    def finished(self, me):
        with self.cv:
            self.done.add(me)
            self.cv.notify_all()


def replay_schedule(calls, solo, schedule):
    cfg.reset_config_context()
    before = repr(ORIG["get_config_context"](validation_depth_default=None))
    sch = Scheduler(schedule, list(calls))
    HOOKS.on_op = sch.on_op
    res = {}

    def body(t):
        res[t] = outcome_of(calls[t][1])
        sch.finished(t)

    ths = [threading.Thread(target=body, args=(t,), name=t) for t in calls]
    [t.start() for t in ths]
    [t.join(60) for t in ths]
    HOOKS.on_op = lambda name, kw: None
    after = repr(ORIG["get_config_context"](validation_depth_default=None))
    differing = {t: (solo[t][1], res.get(t)) for t in calls if res.get(t) != solo[t][1]}
    cfg.reset_config_context()
    return dict(outcomes=res, differing=differing, config_before=before, config_after=after, config_restored=before == after)


SCENARIOS = {
    "LazyFrame-ok || DataFrame-bad": ["pl.validate(LazyFrame ok)", "pl.validate(DataFrame bad)"],
    "DataFrame-bad || DataFrame-ok": ["pl.validate(DataFrame bad)", "pl.validate(DataFrame ok)"],
    "LazyFrame-bad || Column.validate(DataFrame bad)": ["pl.validate(LazyFrame bad)", "pl.Column.validate(DataFrame bad)"],
    "pandas-bad || LazyFrame-ok": ["pd.validate(DataFrame bad)", "pl.validate(LazyFrame ok)"],
    "pandas-bad || user SCHEMA_ONLY block": ["pd.validate(DataFrame bad)", "user config_context(SCHEMA_ONLY)"],
    "pandas-bad || pandas-ok": ["pd.validate(DataFrame bad)", "pd.validate(DataFrame ok)"],
    "3 threads: LazyFrame-ok || DataFrame-bad || pandas-bad": ["pl.validate(LazyFrame ok)", "pl.validate(DataFrame bad)", "pd.validate(DataFrame bad)"],
}


def cfg_case(v):
    raise NotImplementedError


def run_template(t, tier, seed):
    if t.tid.startswith("ATTR/"):
        return run_attr_template(t, tier, seed)
    if t.tid.startswith("COLD/"):
        return run_cold_template(t, tier, seed)
    t0 = time.time()
    scen = t.args[0]
    res = dict(tid=t.tid, paths=0, ret_paths=0, gaps={}, harness_errors=[], mismatches=[], obligations=0, discharged=0, trivial=0, inconclusive=0,
               cex=[], replayed_ok=0, exhausted=True, samples=[], twin_refuted=None, labels={}, kinds={}, queries=0, solver_time=0.0, decisions=0)
    n = HOOKS.install()
    if n == 0:
        res["harness_errors"].append("configuration functions not found in any pandera module (identity wrapping rebound nothing)")
        return res
    cfg.reset_config_context()
    calls = make_calls(SCENARIOS[scen])
    for name, f in calls.values():  # warm-up: backend registration and caches must not be part of the traces
        outcome_of(f)
    solo = {tn: trace(f) for tn, (name, f) in calls.items()}
    sem, syms, npaths, nq = extract_semantics()
    shared = shared_across_threads()
    init_idx = D.index(ORIG["get_config_context"](validation_depth_default=None).validation_depth)
    prog = {tn: solo[tn][0] for tn in calls}
    res["paths"] = res["ret_paths"] = npaths
    res["decisions"] = sum(len(p) for p in prog.values())
    res["queries"] += nq
    res["samples"].append(dict(template=t.tid, threads={tn: dict(call=calls[tn][0], solo_outcome=solo[tn][1],
                                                                 operations=[f"{o[0]}:{str(o[1]).split('.')[-1]}" for o in solo[tn][0]]) for tn in calls},
                               configuration_shared_across_threads=shared))
    for query, label in (("read", "schedule/every_read_sees_solo_value"), ("final", "schedule/configuration_restored")):
        res["obligations"] += 1
        r = bmc(prog, sem, syms, query, init_idx, shared)
        res["queries"] += r["queries"]
        res["solver_time"] += r["solver_s"]
        if r["result"] == "unsat":
            res["discharged"] += 1
            continue
        if r["result"] != "sat":
            res["inconclusive"] += 1
            continue
        for sol in r["solutions"]:
            rp = replay_schedule(calls, solo, sol["schedule"])
            # any deviation observed under a real schedule is a violation, whichever query produced the schedule
            confirmed = bool(rp["differing"]) or not rp["config_restored"]
            detail = f"replayed on OS threads: outcomes {rp['outcomes']} (solo {[solo[x][1] for x in calls]}), config after: {rp['config_after']}"
            if not confirmed:
                # a divergent read that changes no outcome in the replay is a benign observation, not a violation
                res["replayed_ok"] += 1
                res["samples"].append(dict(template=t.tid, schedule="".join(s[-1] for s in sol["schedule"]), note="divergent read without observable effect", replay=detail))
                continue
            res["cex"].append(dict(tid=t.tid, label=label, vals=dict(schedule="".join(s[-1] for s in sol["schedule"])),
                                   facts=dict(scenario=scen, calls={tn: calls[tn][0] for tn in calls}, differing={k: list(x) for k, x in rp["differing"].items()},
                                              config_restored=rp["config_restored"], divergent_reads=[list(x) for x in sol["divergent_reads"]]),
                                   confirmed=confirmed, detail=detail, args=[scen]))
    res["replayed_ok"] += 1
    res["wall"] = round(time.time() - t0, 2)
    return res


# ------------------------------------------------------------------ sub-model 2: shared schema attributes
WATCH = ("coerce", "dtype", "name")


class AttrHooks:
    def __init__(self):
        self.on = lambda kind, obj, attr, val: None    # after a read / before a write, with the value (tracing)
        self.pre = lambda kind, obj, attr: None        # BEFORE the operation takes effect (the replay scheduler switches threads here)
        self.watch = set(WATCH)     # attribute names whose reads and writes are events
        self.discover = None        # while a set: every attribute WRITE on a watched object adds its name (write discovery pass)


AH = AttrHooks()
ABSENT = "<absent>"


def _mk_watched(base):
    class Watched(base):
        def __getattribute__(self, name):
            if name in AH.watch and base.__getattribute__(self, "__dict__").get("_pv_armed"):
                AH.pre("r", self, name)
            try:
                val = base.__getattribute__(self, name)
            except AttributeError:
                if name in AH.watch and not name.startswith("__") and base.__getattribute__(self, "__dict__").get("_pv_armed"):
                    AH.on("r", self, name, ABSENT)  # `getattr(obj, name, None)` on a lazily created attribute is a read, too
                raise
            if name in AH.watch and base.__getattribute__(self, "__dict__").get("_pv_armed"):
                AH.on("r", self, name, val)
            return val

        def __setattr__(self, name, val):
            if self.__dict__.get("_pv_armed") and name != "_pv_armed":
                if AH.discover is not None:
                    AH.discover.add(name)
                if name in AH.watch:
                    AH.pre("w", self, name)
                    AH.on("w", self, name, val)
            base.__setattr__(self, name, val)

    # the backend registry is keyed by the exact schema class: resolve through the real class
    Watched.get_backend = classmethod(lambda cls, check_obj=None, check_type=None: base.get_backend(check_obj, check_type))
    Watched.__name__ = base.__name__
    Watched.__qualname__ = base.__qualname__
    return Watched


def attr_scenario(which):
    if which == "pandas-coerce":
        Col = _mk_watched(pa.Column)
        schema = pa.DataFrameSchema({"a": Col(float, Check.ge(0), coerce=True)})
        calls = {"T1": ("pd.validate(int data, coerce)", lambda: schema.validate(pd.DataFrame({"a": [1, 2]}))),
                 "T2": ("pd.validate(int data, coerce)", lambda: schema.validate(pd.DataFrame({"a": [3, 4]})))}
        comps = list(schema.columns.values())
    elif which == "pandas-regex-name":
        Col = _mk_watched(pa.Column)
        schema = pa.DataFrameSchema({"^a[0-9]$": Col(float, Check.ge(0), regex=True)})
        calls = {"T1": ("pd.validate(a1)", lambda: schema.validate(pd.DataFrame({"a1": [1.0]}))),
                 "T2": ("pd.validate(a2)", lambda: schema.validate(pd.DataFrame({"a2": [1.0]})))}
        comps = list(schema.columns.values())
    elif which == "pandas-df-dtype":
        Col = _mk_watched(pa.Column)
        schema = pa.DataFrameSchema({"a": Col(int, Check.ge(0))}, dtype=float, coerce=True)
        calls = {"T1": ("pd.validate(dtype=float)", lambda: schema.validate(pd.DataFrame({"a": [1, 2]}))),
                 "T2": ("pd.validate(dtype=float)", lambda: schema.validate(pd.DataFrame({"a": [3, 4]})))}
        comps = list(schema.columns.values())
    elif which == "pandas-schema-coerce":  # coercion requested at the dataframe level, the column itself does not coerce
        Col = _mk_watched(pa.Column)
        schema = pa.DataFrameSchema({"a": Col(float, Check.ge(0))}, coerce=True)
        col = schema.columns["a"]
        calls = {"T1": ("pd.validate(int data, schema coerce)", lambda: schema.validate(pd.DataFrame({"a": [1, 2]}))),
                 "T2": ("pd.Column.validate(int data, no coerce)", lambda: col.validate(pd.DataFrame({"a": [3, 4]})))}
        comps = list(schema.columns.values())
    elif which == "pandas-schema-coerce-2":
        Col = _mk_watched(pa.Column)
        schema = pa.DataFrameSchema({"a": Col(float, Check.ge(0)), "b": Col(float)}, coerce=True)
        calls = {"T1": ("pd.validate(int data, schema coerce)", lambda: schema.validate(pd.DataFrame({"a": [1, 2], "b": [1, 2]}))),
                 "T2": ("pd.validate(int data, schema coerce)", lambda: schema.validate(pd.DataFrame({"a": [3, 4], "b": [3, 4]})))}
        comps = list(schema.columns.values())
    elif which == "pandas-schema-coerce-regex":
        Col = _mk_watched(pa.Column)
        schema = pa.DataFrameSchema({"^a[0-9]$": Col(float, Check.ge(0), regex=True)}, coerce=True)
        calls = {"T1": ("pd.validate(a1 int, schema coerce)", lambda: schema.validate(pd.DataFrame({"a1": [1, 2]}))),
                 "T2": ("pd.validate(a2 int, schema coerce)", lambda: schema.validate(pd.DataFrame({"a2": [3, 4]})))}
        comps = list(schema.columns.values())
    elif which == "pandas-index-coerce":
        Idx = _mk_watched(pa.Index)
        schema = pa.DataFrameSchema({"a": pa.Column(int)}, index=Idx(float, Check.ge(0)), coerce=True)
        idx = schema.index
        calls = {"T1": ("pd.validate(int index, schema coerce)", lambda: schema.validate(pd.DataFrame({"a": [1, 2]}))),
                 "T2": ("pd.Index.validate(int index, no coerce)", lambda: idx.validate(pd.DataFrame({"a": [3, 4]})))}
        comps = [schema.index]
    elif which == "pandas-dtype-only":  # no declared columns: the components are generated per call from the frame's labels
        DFS = _mk_watched(pa.DataFrameSchema)
        schema = DFS(dtype=float)
        calls = {"T1": ("pd.validate(a, b)", lambda: schema.validate(pd.DataFrame({"a": [1.0], "b": [2.0]}))),
                 "T2": ("pd.validate(a, b, c: text)", lambda: schema.validate(pd.DataFrame({"a": [1.0], "b": [2.0], "c": ["x"]})))}
        comps = [schema]
    elif which == "pandas-frame-object":  # the DataFrameSchema object itself is watched (whatever attribute a validation may write on it)
        DFS = _mk_watched(pa.DataFrameSchema)
        schema = DFS({"a": pa.Column(float, Check.ge(0), coerce=True), "b": pa.Column(int, required=False)}, unique=["a"], strict="filter", coerce=True,
                     index=pa.Index(int))
        calls = {"T1": ("pd.validate(a int, b)", lambda: schema.validate(pd.DataFrame({"a": [1, 2], "b": [1, 2]}))),
                 "T2": ("pd.validate(a, x; duplicated a)", lambda: schema.validate(pd.DataFrame({"a": [3.0, 3.0], "x": [0, 0]}), lazy=True))}
        comps = [schema]
    elif which == "polars-frame-object":
        DFS = _mk_watched(pap.DataFrameSchema)
        schema = DFS({"a": pap.Column(float, Check.ge(0), coerce=True), "b": pap.Column(int, required=False)}, strict="filter", coerce=True)
        calls = {"T1": ("pl.validate(a int, b)", lambda: schema.validate(pl.DataFrame({"a": [1, 2], "b": [1, 2]}))),
                 "T2": ("pl.validate(a, x)", lambda: schema.validate(pl.DataFrame({"a": [-3.0, 3.0], "x": [0, 0]}), lazy=True))}
        comps = [schema]
    elif which == "polars-coerce":
        Col = _mk_watched(pap.Column)
        schema = pap.DataFrameSchema({"a": Col(float, Check.ge(0), coerce=True)})
        calls = {"T1": ("pl.validate(int data, coerce)", lambda: schema.validate(pl.DataFrame({"a": [1, 2]}))),
                 "T2": ("pl.validate(int data, coerce)", lambda: schema.validate(pl.DataFrame({"a": [3, 4]})))}
        comps = list(schema.columns.values())
    else:
        raise KeyError(which)
    return schema, comps, calls


def run_attr_template(t, tier, seed):
    t0 = time.time()
    which = t.args[0]
    res = dict(tid=t.tid, paths=0, ret_paths=0, gaps={}, harness_errors=[], mismatches=[], obligations=0, discharged=0, trivial=0, inconclusive=0,
               cex=[], replayed_ok=0, exhausted=True, samples=[], twin_refuted=None, labels={}, kinds={}, queries=0, solver_time=0.0, decisions=0)
    schema, comps, calls = attr_scenario(which)
    ids = {id(c): i for i, c in enumerate(comps)}
    for name, f in calls.values():
        outcome_of(f)  # warm-up
    for c in comps:
        c.__dict__["_pv_armed"] = True
    # write discovery: whatever attribute a validation writes on a watched (shared) object becomes an event location, in addition
    # to the three attributes the container overrides by design
    AH.watch, AH.discover = set(WATCH), set()
    for name, f in calls.values():
        outcome_of(f)
    AH.watch, AH.discover = set(WATCH) | {a for a in AH.discover if not a.startswith("__")}, None
    res["samples"].append(dict(template=t.tid, watched_attributes=sorted(AH.watch)))
    solo = {}
    for tn, (name, f) in calls.items():
        _reset_lazy(comps)  # every traced run starts from the same state: lazily created attributes are absent
        ev = []
        AH.on = lambda kind, obj, attr, val, ev=ev: ev.append((kind, (ids.get(id(obj), -1), attr), val)) if id(obj) in ids else None
        out = outcome_of(f)
        AH.on = lambda kind, obj, attr, val: None
        solo[tn] = (ev, out)
    _reset_lazy(comps)
    # value domain per location
    locs = sorted({e[1] for ev, _ in solo.values() for e in ev})
    dom = {l: [] for l in locs}
    for l in locs:
        dom[l].append(_key(_attr_now(comps, l)))
    for ev, _ in solo.values():
        for kind, l, val in ev:
            if _key(val) not in dom[l]:
                dom[l].append(_key(val))
    prog = {}
    for tn, (ev, _) in solo.items():
        p = []
        for k, (kind, l, val) in enumerate(ev):
            if kind == "r":
                p.append(("r", l, dom[l].index(_key(val)), None))
            else:
                # a write that puts back a value this thread read earlier from the same location (after overwriting it)
                # restores the SAVED value: under another schedule it writes what that read actually observed
                saved = None
                wrote = False
                for j in range(k - 1, -1, -1):
                    kj, lj, vj = ev[j]
                    if lj != l:
                        continue
                    if kj == "w":
                        wrote = True
                    elif kj == "r" and wrote and _key(vj) == _key(val):
                        saved = j
                        break
                p.append(("w", l, dom[l].index(_key(val)), saved))
        prog[tn] = p
    res["paths"] = res["ret_paths"] = sum(len(p) for p in prog.values())
    res["decisions"] = res["paths"]
    res["samples"].append(dict(template=t.tid, threads={tn: dict(call=calls[tn][0], solo_outcome=solo[tn][1], events=[f"{e[0]} {e[1][1]}[{e[1][0]}]={str(e[2])[:20]}" for e in solo[tn][0]][:40])
                                                        for tn in calls}))
    for query, label in (("read", "schedule/attribute_reads_see_solo_value"), ("final", "schedule/schema_restored")):
        res["obligations"] += 1
        r = bmc_rw(prog, locs, dom, query)
        res["queries"] += r["queries"]
        res["solver_time"] += r["solver_s"]
        if r["result"] == "unsat":
            res["discharged"] += 1
            continue
        if r["result"] != "sat":
            res["inconclusive"] += 1
            continue
        for sol in r["solutions"]:
            rp = replay_attr(which, sol["schedule"], solo)
            confirmed = bool(rp["differing"]) or not rp["schema_restored"]
            detail = f"replayed on OS threads: outcomes {rp['outcomes']} (solo {[solo[x][1] for x in calls]}), schema restored: {rp['schema_restored']}"
            if not confirmed:
                res["samples"].append(dict(template=t.tid, schedule="".join(s[-1] for s in sol["schedule"]), note="divergent attribute read without observable effect",
                                           divergent_reads=[list(map(str, x)) for x in sol["divergent_reads"]][:4], replay=detail))
                continue
            res["cex"].append(dict(tid=t.tid, label=label, vals=dict(schedule="".join(s[-1] for s in sol["schedule"]), watch=sorted(AH.watch)),
                                   facts=dict(scenario=which, differing={k: list(x) for k, x in rp["differing"].items()}, schema_restored=rp["schema_restored"],
                                              divergent_reads=[list(map(str, x)) for x in sol["divergent_reads"]]),
                                   confirmed=True, detail=detail, args=[which]))
    res["replayed_ok"] += 1
    res["wall"] = round(time.time() - t0, 2)
    return res


# ------------------------------------------------------------------ sub-model 3: lazily filled registries at cold start
COLD = {"frame||frame2": ("pd.frame", "pd.frame2"), "frame||series": ("pd.frame", "pd.series"), "model||frame": ("pd.model", "pd.frame"),
        "model||model": ("pd.model", "pd.model_same"), "pd.frame||pl.frame": ("pd.frame", "pl.frame")}


def _cold(*args, timeout=300):
    import json
    import os
    import subprocess

    env = dict(os.environ)
    p = subprocess.run([sys.executable, "-m", "coldreg", *args], capture_output=True, text=True, env=env, timeout=timeout)
    lines = [l for l in p.stdout.strip().splitlines() if l.startswith("{")]
    if not lines:
        raise RuntimeError("coldreg produced no result: " + (p.stderr or p.stdout)[-400:])
    return json.loads(lines[-1])


def run_cold_template(t, tier, seed):
    """each call is traced alone in a FRESH interpreter (nothing validated before): its reads and writes of every plain
    dict/set/list held by a pandera module or class.  z3 looks for an interleaving of the two traces in which a read observes the
    other thread's write (or misses its own earlier one); every such schedule is forced on OS threads in a fresh interpreter and
    only reported if a call's outcome differs from its solo outcome."""
    t0 = time.time()
    which = t.args[0]
    names = COLD[which]
    res = dict(tid=t.tid, paths=0, ret_paths=0, gaps={}, harness_errors=[], mismatches=[], obligations=0, discharged=0, trivial=0, inconclusive=0,
               cex=[], replayed_ok=0, exhausted=True, samples=[], twin_refuted=None, labels={}, kinds={}, queries=0, solver_time=0.0, decisions=0)
    try:
        tr = {f"T{i + 1}": _cold("trace", nm) for i, nm in enumerate(names)}
    except Exception as exc:  # noqa: BLE001
        res["harness_errors"].append("cold trace failed: " + repr(exc)[:300])
        return res
    if tr["T1"]["instrumented"] == 0:
        res["harness_errors"].append("no shared container found to instrument")
        return res
    written = {}
    for tn, d in tr.items():
        for kind, loc, val in d["events"]:
            if kind == "w":
                written.setdefault(loc, set()).add(tn)
    accessed = {tn: {loc for _, loc, _ in d["events"]} for tn, d in tr.items()}
    # a location matters if one thread writes it and the other thread touches it
    locs = sorted(l for l, ws in written.items() if any(l in accessed[o] for o in tr if o not in ws or len(ws) > 1))
    dom = {l: ["<absent>"] for l in locs}
    prog = {}
    for tn, d in tr.items():
        p = []
        for kind, loc, val in d["events"]:
            if loc not in dom:
                continue
            if val not in dom[loc]:
                dom[loc].append(val)
            p.append((kind, loc, dom[loc].index(val), None))
        prog[tn] = p
    # the initial content of a location is what the first solo read observed before any write of that thread
    for l in locs:
        for tn, d in tr.items():
            first = next(((k, v) for k, lo, v in d["events"] if lo == l), None)
            if first and first[0] == "r" and first[1] != "<absent>" and dom[l][0] == "<absent>":
                i = dom[l].index(first[1])
                dom[l][0], dom[l][i] = dom[l][i], dom[l][0]
                for tn2 in prog:
                    prog[tn2] = [(k, lo, (i if x == 0 else 0 if x == i else x) if lo == l else x, s) for k, lo, x, s in prog[tn2]]
                break
    res["paths"] = res["ret_paths"] = sum(len(p) for p in prog.values())
    res["decisions"] = res["paths"]
    res["samples"].append(dict(template=t.tid, calls=list(names), solo={tn: d["outcome"] for tn, d in tr.items()}, containers_instrumented=tr["T1"]["instrumented"],
                               shared_locations=locs[:12], events_per_thread={tn: len(p) for tn, p in prog.items()}))
    res["obligations"] += 1
    if not locs or not all(prog.values()):
        res["discharged"] += 1
        res["replayed_ok"] += 1
        res["wall"] = round(time.time() - t0, 2)
        return res
    # keep the SMT problem small: a thread's consecutive operations on locations nobody else touches are irrelevant, and long
    # runs are capped (the first operations on every location decide whether it is filled)
    cap = 150 if tier == "quick" else 400
    prog = {tn: p[:cap] for tn, p in prog.items()}
    r = bmc_rw(prog, locs, {l: list(range(len(v))) for l, v in dom.items()}, "read", max_solutions=5 if tier == "quick" else 16, one_preemption=True)
    res["queries"] += r["queries"]
    res["solver_time"] += r["solver_s"]
    if r["result"] == "unsat":
        res["discharged"] += 1
    elif r["result"] != "sat":
        res["inconclusive"] += 1
    else:
        bad = False
        for sol in r["solutions"]:
            try:
                rp = _cold("replay", ",".join(names), ",".join(sol["schedule"]))
            except Exception as exc:  # noqa: BLE001
                res["harness_errors"].append("cold replay failed: " + repr(exc)[:200])
                continue
            if any(rp["outcomes"].get(tn) is None for tn in tr):
                res["samples"].append(dict(template=t.tid, schedule="".join(s[-1] for s in sol["schedule"]), note="forced schedule did not complete (threads blocked on interpreter locks): not evaluated"))
                continue
            differing = {tn: (tr[tn]["outcome"], rp["outcomes"].get(tn)) for tn in tr if rp["outcomes"].get(tn) != tr[tn]["outcome"]}
            if differing:
                bad = True
                res["cex"].append(dict(tid=t.tid, label="schedule/cold_start_outcomes_as_solo", vals=dict(schedule="".join(s[-1] for s in sol["schedule"])),
                                       facts=dict(scenario=which, calls=list(names), differing={k: list(x) for k, x in differing.items()},
                                                  divergent_reads=[list(map(str, x)) for x in sol["divergent_reads"]]),
                                       confirmed=True, detail=f"replayed on OS threads in a fresh interpreter: outcomes {rp['outcomes']}", args=[which]))
            else:
                res["samples"].append(dict(template=t.tid, schedule="".join(s[-1] for s in sol["schedule"]), note="divergent registry read without observable effect",
                                           divergent_reads=[list(map(str, x)) for x in sol["divergent_reads"]][:3]))
        if not bad:
            res["discharged"] += 1
    res["replayed_ok"] += 1
    res["wall"] = round(time.time() - t0, 2)
    return res


def _key(v):
    return repr(v)


def _reset_lazy(comps):
    """remove the attributes a validation created on the shared objects (memos): the common initial state of every traced run,
    of the schedule model and of the replay"""
    for c in comps:
        for a in AH.watch - set(WATCH):
            c.__dict__.pop(a, None)


def _attr_now(comps, l):
    i, attr = l
    if attr == "dtype":
        return comps[i].__dict__.get("_dtype", getattr(type(comps[i]), "dtype", None) and comps[i].dtype)
    try:
        return object.__getattribute__(comps[i], attr)
    except AttributeError:
        return ABSENT


def bmc_rw(prog, locs, dom, query, max_solutions=24, one_preemption=False):
    """one_preemption: only schedules of the shape O^a T^|T| O^rest (thread O runs a operations, then T runs to completion, then O
    finishes) for a solver-chosen a and either role assignment — a context-bounded family used where replays are expensive"""
    threads = list(prog)
    L = sum(len(p) for p in prog.values())
    solver = z3.Solver()
    solver.set("timeout", 120000)
    if one_preemption and len(threads) == 2:
        a, role = z3.Int("a"), z3.Int("role")
        solver.add(role >= 0, role <= 1, a >= 0)
        for r_ in (0, 1):
            o_, t_ = r_, 1 - r_
            lt = len(prog[threads[t_]])
            solver.add(z3.Implies(role == r_, a <= len(prog[threads[o_]])))
            for i in range(L):
                solver.add(z3.Implies(role == r_, z3.Int(f"c{i}") == z3.If(i < a, o_, z3.If(i < a + lt, t_, o_))))
    state = {l: z3.IntVal(0) for l in locs}  # index 0 of every domain is the initial value
    pc = {t: z3.IntVal(0) for t in threads}
    obs = {}
    sched = [z3.Int(f"c{i}") for i in range(L)]
    diverge = []
    for step in range(L):
        c = sched[step]
        solver.add(c >= 0, c < len(threads))
        nstate = dict(state)
        for ti, t in enumerate(threads):
            act = c == ti
            solver.add(z3.Implies(act, pc[t] < len(prog[t])))
            for k, (kind, l, val, saved) in enumerate(prog[t]):
                here = z3.And(act, pc[t] == k)
                if kind == "r":
                    obs[(t, k)] = z3.If(here, state[l], obs.get((t, k), z3.IntVal(val)))
                    diverge.append((t, k, z3.And(here, state[l] != val)))
                else:
                    wv = obs[(t, saved)] if saved is not None and (t, saved) in obs else z3.IntVal(val)
                    nstate[l] = z3.If(here, wv, nstate[l])
            pc[t] = z3.If(act, pc[t] + 1, pc[t])
        state = nstate
    for t in threads:
        solver.add(pc[t] == len(prog[t]))
    if query == "read":
        solver.add(z3.Or(*[d for _, _, d in diverge]) if diverge else z3.BoolVal(False))
    else:
        solver.add(z3.Or(*[s != 0 for s in state.values()]) if state else z3.BoolVal(False))
    sols, t0, nq, r = [], time.time(), 0, "unsat"
    while len(sols) < max_solutions:
        nq += 1
        r = str(solver.check())
        if r != "sat":
            break
        m = solver.model()
        schedule = [threads[m.eval(c, model_completion=True).as_long()] for c in sched]
        hit = sorted({(t, k) for t, k, d in diverge if z3.is_true(m.eval(d, model_completion=True))})
        sols.append(dict(schedule=schedule, divergent_reads=[(t, prog[t][k][1]) for t, k in hit][:6]))
        # (a read has one divergence term per step: it diverges if it does so at the step where it happens)
        per_read = lambda t, k: z3.Or(*[d for t2, k2, d in diverge if (t2, k2) == (t, k)])  # noqa: E731
        if one_preemption and len(threads) == 2:
            solver.add(z3.Or(z3.Int("a") != m.eval(z3.Int("a"), model_completion=True), z3.Int("role") != m.eval(z3.Int("role"), model_completion=True)))
            # schedules that expose the same set of divergent reads are equivalent for the replay: ask for a new set
            if hit:
                solver.add(z3.Not(z3.And(*[per_read(t, k) for t, k in hit])))
        elif query == "read" and hit:
            solver.add(z3.Not(z3.And(*[per_read(t, k) for t, k in hit])))
        else:
            break
    return dict(result="sat" if sols else r, solutions=sols, steps=L, queries=nq, solver_s=round(time.time() - t0, 3))


def replay_attr(which, schedule, solo):
    schema, comps, calls = attr_scenario(which)
    for name, f in calls.values():
        outcome_of(f)
    import tmpl

    _reset_lazy(comps)
    fp0 = tmpl.fingerprint(schema)
    ids = {id(c) for c in comps}
    for c in comps:
        c.__dict__["_pv_armed"] = True
    sch = Scheduler(schedule, list(calls))
    AH.pre = lambda kind, obj, attr: sch.on_op(kind, None) if id(obj) in ids else None
    res = {}

    def body(t):
        res[t] = outcome_of(calls[t][1])
        sch.finished(t)

    ths = [threading.Thread(target=body, args=(t,), name=t) for t in calls]
    [t.start() for t in ths]
    [t.join(60) for t in ths]
    AH.pre = lambda kind, obj, attr: None
    for c in comps:
        c.__dict__["_pv_armed"] = False
    differing = {t: (solo[t][1], res.get(t)) for t in calls if res.get(t) != solo[t][1]}
    return dict(outcomes=res, differing=differing, schema_restored=tmpl.fingerprint(schema) == fp0)


def replay(c):
    if c["tid"].startswith("COLD/"):
        names = COLD[c["args"][0]]
        solo = {f"T{i + 1}": _cold("trace", nm)["outcome"] for i, nm in enumerate(names)}
        rp = _cold("replay", ",".join(names), ",".join("T" + ch for ch in c["vals"]["schedule"]))
        print("schedule:", c["vals"]["schedule"], "outcomes:", rp["outcomes"], "solo:", solo)
        if any(rp["outcomes"].get(k) != v for k, v in solo.items()):
            print("VIOLATION property=C07 (schedule reproduced on OS threads in a fresh interpreter)")
            return 1
        print("not reproduced")
        return 0
    if c["tid"].startswith("ATTR/"):
        which = c["args"][0]
        schema, comps, calls = attr_scenario(which)
        solo = {tn: ([], outcome_of(f)) for tn, (name, f) in calls.items()}
        sched = ["T" + ch for ch in c["vals"]["schedule"]]
        AH.watch = set(c["vals"].get("watch") or WATCH)
        rp = replay_attr(which, sched, solo)
        print("schedule:", c["vals"]["schedule"], "outcomes:", rp["outcomes"], "solo:", {k: v[1] for k, v in solo.items()}, "schema restored:", rp["schema_restored"])
        bad = bool(rp["differing"]) or not rp["schema_restored"]
    else:
        HOOKS.install()
        cfg.reset_config_context()
        calls = make_calls(SCENARIOS[c["args"][0]])
        for name, f in calls.values():
            outcome_of(f)
        solo = {tn: trace(f) for tn, (name, f) in calls.items()}
        sched = ["T" + ch for ch in c["vals"]["schedule"]]
        rp = replay_schedule(calls, solo, sched)
        print("schedule:", c["vals"]["schedule"], "outcomes:", rp["outcomes"], "solo:", {k: v[1] for k, v in solo.items()}, "config after:", rp["config_after"])
        bad = bool(rp["differing"]) or not rp["config_restored"]
    if bad:
        print("VIOLATION property=C07 (schedule reproduced on OS threads)")
        return 1
    print("not reproduced")
    return 0


def templates(tier, seed):
    ts = []
    for name in SCENARIOS:
        if tier == "quick" and name.startswith("3 threads"):
            continue
        ts.append(Template(f"CFG/{name}", cfg_case, (name,)))
    for which in ("pandas-coerce", "pandas-regex-name", "pandas-df-dtype", "pandas-schema-coerce", "pandas-schema-coerce-2", "pandas-schema-coerce-regex",
                  "pandas-index-coerce", "polars-coerce", "pandas-dtype-only", "pandas-frame-object", "polars-frame-object"):
        ts.append(Template(f"ATTR/{which}", cfg_case, (which,)))
    for which in COLD:
        if tier == "quick" and which in ("model||model", "pd.frame||pl.frame"):
            continue
        ts.append(Template(f"COLD/{which}", cfg_case, (which,)))
    return ts
