"""C17 — decorators gate the call on validation and are otherwise transparent (pandas part)."""
import tmpl
from pvrun import Template

PROPERTY = "C17"
LABELS = ["decorator"]
t_dec = tmpl.pick(tmpl.decorator_case, LABELS)


def templates(tier, seed):
    ts = []
    for N in ((2,) if tier == "quick" else (1, 2, 3)):
        for shape in tmpl.DECORATOR_SHAPES:
            ts.append(Template(f"{shape}/N={N}", t_dec, (shape, N)))
    return ts
