"""C04 — validation never modifies the caller's data unless inplace=True; container kind preserved (pandas part).

The input object is snapshotted (term lists / deep copy) before the real validate call and compared afterwards on every
path, whatever the outcome (return, eager raise, lazy raise)."""
import itertools

import tmpl
from pvrun import Template

PROPERTY = "C04"
LABELS = ["input_unchanged", "kind_preserved"]
t_series = tmpl.pick(tmpl.series_case, LABELS)
t_frame = tmpl.pick(tmpl.frame_case, LABELS)
t_parse = tmpl.pick(tmpl.parse_case, LABELS)
t_sidx = tmpl.pick(tmpl.series_index_case, LABELS)
t_comp = tmpl.pick(tmpl.component_case, LABELS)


def templates(tier, seed):
    ts = []
    N = 2
    for kind, cname in (("float", "in_range"), ("float", "ne"), ("int", "ge"), ("str", "str_matches"), ("str", "isin")):
        for lazy in (False, True):
            ts.append(Template(f"S/{kind}/{cname}/lazy={int(lazy)}/N={N}", t_series, (kind, cname, N, True, None, lazy)))
    for arr in (["a", "b"], ["b", "a"], ["a", "b", "x"], ["b"]):
        for strict in (False, True, "filter"):
            for lazy in (False, True):
                ts.append(Template(f"F/{''.join(arr)}/strict={strict}/lazy={int(lazy)}/N={N}", t_frame, (arr, strict, False, N, {"lazy": lazy})))
    for vc, ic in itertools.product((False, True), repeat=2):
        for lazy in (False, True):
            ts.append(Template(f"SI/val_coerce={int(vc)}/idx_coerce={int(ic)}/lazy={int(lazy)}/N={N}", t_sidx, (N, lazy, vc, ic)))
    for coerce, a_kind in ((None, "float"), ("col", "int"), ("schema", "int")):
        for default in (False, True):
            for add_missing, arr in ((False, ["a", "b"]), (True, ["b"]), (False, ["a", "b", "x"])):
                for strict in (False, "filter"):
                    for drop in (False, True):
                        for index in (None, "coerce"):
                            c = dict(coerce=coerce, a_kind=a_kind, default=default, add_missing=add_missing, strict=strict, drop=drop, index=index)
                            n_on = sum([coerce is not None, default, add_missing, strict == "filter", drop, index is not None])
                            if n_on > (2 if tier == "quick" else 6) or (tier == "quick" and n_on == 2 and index and drop):
                                continue
                            for lazy in ((False, True) if not drop else (True,)):
                                cc = dict(c, lazy=lazy, distinct_labels=drop)
                                tid = "P/" + "".join(arr) + "/" + "/".join(f"{k}={v}" for k, v in cc.items() if k != "distinct_labels")
                                ts.append(Template(tid, t_parse, (arr, N, cc)))
    for comp in ("column", "column_coerce", "column_default", "index", "index_coerce", "multiindex", "multiindex_coerce"):
        for lazy in (False, True):
            ts.append(Template(f"K/{comp}/lazy={int(lazy)}/N={N}", t_comp, (comp, N, lazy)))
    return ts
