"""C04 — validation never modifies the caller's data unless inplace=True; container kind preserved (pandas part).

The input object is snapshotted (term lists / deep copy) before the real validate call and compared afterwards on every
path, whatever the outcome (return, eager raise, lazy raise)."""
import itertools

import tmpl
from pvrun import Template

PROPERTY = "C04"
LABELS = ["input_unchanged", "kind_preserved"]

def templates(tier, seed):
    import tmpl_pl

    ts = [Template(tid, tmpl.pick(fn, LABELS), args) for tid, fn, args in tmpl.standard_cases(tier) + tmpl_pl.standard_cases(tier)]
    # polars: head/tail/sample do not change what is returned (the whole input, in the container kind it came in)
    ts += [Template(tid, tmpl.pick(fn, ["kind_preserved", "subsample/input_unchanged", "subsample/returns_whole_object"]), args)
           for tid, fn, args in tmpl_pl.subsample_cases(tier) if "/N=2" in tid]
    return ts
