"""C06 — errors use the documented channel; failures leave no trace (exception safety), pandas part.

(a) every path of the shared schema shapes and of the 'legal but unusual' combinations ends in a return, SchemaError,
SchemaErrors or a documented usage error; (b) fault schedules: one symbolic flag per invocation of a user callback."""
import tmpl
from pvrun import Template

PROPERTY = "C06"
LABELS = ["channel", "schema_unchanged", "config_unchanged", "fault"]


def templates(tier, seed):
    ts = [Template(tid, tmpl.pick(fn, ["channel"]), args) for tid, fn, args in tmpl.standard_cases(tier)]
    import tmpl_pl

    ts += [Template(tid, tmpl.pick(fn, ["channel", "schema_unchanged", "config_unchanged", "subsample/channel"]), args)
           for tid, fn, args in tmpl_pl.standard_cases(tier) + tmpl_pl.subsample_cases(tier)[-3:]]
    ts += [Template(tid, tmpl.pick(fn, LABELS), args, max_paths=20000) for tid, fn, args in tmpl_pl.fault_cases(tier)]
    # a check with one boolean output next to a row-level check: both kinds of failure case end up in one lazy report
    ts += [Template(tid, tmpl.pick(fn, ["channel", "lazy/channel", "schema_unchanged", "config_unchanged"]), args)
           for tid, fn, args in tmpl_pl.lazy_cases(tier) if "scalar_check" in tid]
    # polars: coercion under each validation depth (a value that cannot be converted)
    ts += [Template(tid, tmpl.pick(fn, ["channel"]), args) for tid, fn, args in tmpl_pl.depth_cases(tier) if tid.startswith("PL/DEPTHREL/")]
    N = 2
    for which in tmpl.UNUSUAL:
        ts.append(Template(f"U/{which}/N={N}", tmpl.pick(tmpl.unusual_case, LABELS + ["input_unchanged"]), (which, N)))
    for shape in ("frame", "frame_regex", "series", "parser", "parser_dtype", "groupby"):
        for lazy in (False, True):
            mf = 1 if tier == "quick" else None
            ts.append(Template(f"X/{shape}/lazy={int(lazy)}/N={N}/faults<={mf}", tmpl.pick(tmpl.fault_case, LABELS), (shape, lazy, N, mf), max_paths=20000))
    return ts
