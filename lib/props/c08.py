"""C08 — one schema definition means the same thing on pandas and on polars (check layer and column-label twins).

For every built-in check and option combination the two REAL implementations (backends/pandas/builtin_checks.py on
symframe, backends/polars/builtin_checks.py on sympolars) and the two real check back ends run on the SAME symbolic
column; z3 decides that verdict and failing rows agree for all cell values, nulls and arguments."""
import types

import z3

from pvinstall import install

install()
import pandas as real_pd  # noqa: E402
import polars as real_pl  # noqa: E402
import pandera as pa  # noqa: E402
import pandera.polars as pap  # noqa: E402,F401  (registers the real polars back ends)
from pandera import Check  # noqa: E402
import pandera.backends.polars.builtin_checks as PBC  # noqa: E402
import pandera.backends.polars.checks as PCK  # noqa: E402
from pandera.backends.polars.checks import PolarsCheckBackend  # noqa: E402

import pvharness as H  # noqa: E402
import symframe  # noqa: E402
import sympolars  # noqa: E402
from pvrun import Template  # noqa: E402
from symx import SymBool, lift_bool  # noqa: E402

PROPERTY = "C08"
FUNCTIONS_ENCODED = ["pandera.backends.pandas.builtin_checks.*", "pandera.backends.polars.builtin_checks.*",
                     "pandera.backends.pandas.checks.PandasCheckBackend.{preprocess,apply,postprocess}",
                     "pandera.backends.polars.checks.PolarsCheckBackend.{preprocess,apply,postprocess,postprocess_lazyframe_output}",
                     "pandera.api.function_dispatch.Dispatcher", "pandera.api.checks.Check.__call__",
                     "twin label-level functions: strict_filter_columns/collect_column_info/check_column_presence of both container back ends (concrete labels)"]
ASSUMPTIONS = ["sympolars models polars' expression semantics (Kleene null logic, filter drops null predicates, all() ignores nulls); validated per path on real polars",
               "regex patterns from a concrete family; both sides translated from the pattern string each implementation actually passes down",
               "date-time dtypes, string<->number coercion and the container pipelines' data path on polars are outside this check"]
BOUNDS = {"quick": {"rows": 2}, "thorough": {"rows": "<= 3"}}
NS = types.SimpleNamespace(col=sympolars.col, lit=sympolars.lit, LazyFrame=sympolars.LazyFrame, DataFrame=sympolars.DataFrame,
                           concat=sympolars.concat, fold=sympolars.fold, Boolean="bool")
_REAL = (PBC.pl, PCK.pl)
Check.register_backend(sympolars.LazyFrame, PolarsCheckBackend)

NUM = {
    "eq": lambda v, k: Check.eq(v.int("a"), **k), "ne": lambda v, k: Check.ne(v.int("a"), **k),
    "gt": lambda v, k: Check.gt(v.int("a"), **k), "ge": lambda v, k: Check.ge(v.int("a"), **k),
    "lt": lambda v, k: Check.lt(v.int("a"), **k), "le": lambda v, k: Check.le(v.int("a"), **k),
    "in_range": lambda v, k: Check.in_range(v.int("a"), v.int("b"), v.bool("imin"), v.bool("imax"), **k),
    "isin": lambda v, k: Check.isin([1, 2, 3], **k), "notin": lambda v, k: Check.notin([1, 2, 3], **k),
}
PATTERNS = ["ab", "a|b", "(a|b)c", "^a$", "a[0-9]+", "^a|b", "x*y?", "a.c"]
STR = {
    "eq": lambda v, k: Check.eq("ab", **k), "ne": lambda v, k: Check.ne("ab", **k),
    "isin": lambda v, k: Check.isin(["a", "ab"], **k), "notin": lambda v, k: Check.notin(["a", "ab"], **k),
    "str_startswith": lambda v, k: Check.str_startswith("ab", **k), "str_endswith": lambda v, k: Check.str_endswith("ab", **k),
    "str_length(1,2)": lambda v, k: Check.str_length(1, 2, **k), "str_length(min1)": lambda v, k: Check.str_length(1, None, **k),
    "str_length(max2)": lambda v, k: Check.str_length(None, 2, **k),
}
for _i, _p in enumerate(PATTERNS):
    STR[f"str_matches[{_i}]"] = (lambda p: (lambda v, k: Check.str_matches(p, **k)))(_p)
    STR[f"str_contains[{_i}]"] = (lambda p: (lambda v, k: Check.str_contains(p, **k)))(_p)


def equiv_case(v, kind, cname, N, ina):
    table = NUM if kind in ("int", "float") else STR
    vals, nulls = v.cells("x", kind, N, nullable=kind != "int")  # a pandas int64 column cannot hold nulls
    try:
        chk = table[cname](v, dict(ignore_na=ina))
    except ValueError:
        return dict(obs=None, asserts=[], facts=dict(kind="ctor ValueError"))
    if v.sym:
        PBC.pl, PCK.pl = NS, NS
        try:
            ps = symframe.Series(vals, nulls=nulls, name="c", dtype=H.DT[kind])
            lf = sympolars.LazyFrame({"c": sympolars.Col(vals, nulls, kind)})
            rp = chk(ps)
            rl = chk(lf, "c")
            pd_pass = lift_bool(rp.check_passed)
            pl_pass = lift_bool(rl.check_passed.collect().item())
            pd_fail = [z3.BoolVal(False)] * N if rp.failure_cases is None else list(rp.failure_cases.present)
            pl_fail = list(rl.failure_cases.collect().present)
        finally:
            PBC.pl, PCK.pl = _REAL
        asserts = [("backend_equiv/verdict", pd_pass == pl_pass),
                   ("backend_equiv/failing_rows", z3.And(*[a == b for a, b in zip(pd_fail, pl_fail)]) if N else z3.BoolVal(True))]
        return dict(obs=None, asserts=asserts, facts=dict(kind="ok"))
    cv = v._conc_cells(vals, nulls, kind)
    ps = real_pd.Series(cv, name="c", dtype=H.DT[kind])
    pl_dt = {"int": real_pl.Int64, "float": real_pl.Float64, "str": real_pl.Utf8}[kind]
    lf = real_pl.LazyFrame({"c": real_pl.Series("c", [None if (x is None or (isinstance(x, float) and x != x)) else x for x in cv], dtype=pl_dt)})
    rp = chk(ps)
    rl = chk(lf, "c")
    pd_pass = bool(rp.check_passed)
    pl_pass = bool(rl.check_passed.collect().item())
    pd_rows = [] if rp.failure_cases is None else [H.norm_val(x) for x in rp.failure_cases.tolist()]
    pl_rows = [H.norm_val(x) for x in rl.failure_cases.collect()["c"].to_list()]
    asserts = [("backend_equiv/verdict", pd_pass == pl_pass),
               ("backend_equiv/failing_rows", sorted(map(repr, pd_rows)) == sorted(map(repr, pl_rows)))]
    return dict(obs=None, asserts=asserts, facts=dict(kind="ok"))


# ------------------------------------------------------------------ twin label-level functions of the two container back ends
def label_twin_case(v, arrangement, strict, ordered):
    """same backend-neutral spec, same column arrangement, one-row concrete-typed frames: label-level verdict must agree"""
    import pandera.polars as ppl

    kinds = {"a": "float", "b": "int", "x": "int"}
    req_b = v.choice("req_b", [True, False])
    add_missing = v.choice("amc", [False, True])
    pd_schema = pa.DataFrameSchema({"a": pa.Column(float, nullable=True), "b": pa.Column(int, required=req_b, default=1 if add_missing else None)},
                                   strict=strict, ordered=ordered, add_missing_columns=add_missing)
    pl_schema = ppl.DataFrameSchema({"a": ppl.Column(float, nullable=True), "b": ppl.Column(int, required=req_b, default=1 if add_missing else None)},
                                    strict=strict, ordered=ordered, add_missing_columns=add_missing)
    data = {c: [1.0] if kinds[c] == "float" else [1] for c in arrangement}
    pdf = real_pd.DataFrame(data)
    pldf = real_pl.DataFrame(data)
    o1 = H.outcome(lambda: pd_schema.validate(pdf))
    o2 = H.outcome(lambda: pl_schema.validate(pldf))
    cols1 = list(o1["out"].columns) if o1["kind"] == "accept" else None
    cols2 = list(o2["out"].columns) if o2["kind"] == "accept" else None
    asserts = [("backend_equiv/label_verdict", v.holds((o1["kind"] == "accept") == (o2["kind"] == "accept"))),
               ("backend_equiv/label_output_columns", v.holds(cols1 == cols2))]
    return dict(obs=None, asserts=asserts, facts=dict(pandas=o1["kind"], polars=o2["kind"], reason_pd=o1.get("reason"), reason_pl=o2.get("reason"),
                                                     cols_pd=cols1, cols_pl=cols2, msg=o2.get("msg")))


def label_twin3_case(v, arrangement, strict, ordered):
    """three declared columns (b and c optional or required, chosen by the solver), any arrangement of present/absent/undeclared
    columns: pandas verdict == polars verdict == the documented label-level semantics; same output columns"""
    import pandera.polars as ppl

    import pvoracle as O

    kinds = {"a": "float", "b": "int", "c": "int", "x": "int"}
    req_b = v.choice("req_b", [True, False])
    req_c = v.choice("req_c", [True, False])

    def mk(mod):
        return mod.DataFrameSchema({"a": mod.Column(float, nullable=True), "b": mod.Column(int, required=req_b), "c": mod.Column(int, required=req_c)},
                                   strict=strict, ordered=ordered)

    data = {c: [1.0] if kinds[c] == "float" else [1] for c in arrangement}
    o1 = H.outcome(lambda: mk(pa).validate(real_pd.DataFrame(data)))
    o2 = H.outcome(lambda: mk(ppl).validate(real_pl.DataFrame(data)))
    spec = O.FrameSpec({"a": O.FieldSpec("float", nullable=True), "b": O.FieldSpec("int", required=req_b), "c": O.FieldSpec("int", required=req_c)},
                       strict=strict, ordered=ordered)
    ok, why = spec.label_level_ok([(c, kinds[c]) for c in arrangement])
    cols1 = list(o1["out"].columns) if o1["kind"] == "accept" else None
    cols2 = list(o2["out"].columns) if o2["kind"] == "accept" else None
    asserts = [("backend_equiv/label_verdict", v.holds((o1["kind"] == "accept") == (o2["kind"] == "accept"))),
               ("backend_equiv/label_output_columns", v.holds(cols1 == cols2)),
               ("backend_equiv/label_polars_as_documented", v.holds((o2["kind"] == "accept") == ok)),
               ("backend_equiv/label_pandas_as_documented", v.holds((o1["kind"] == "accept") == ok))]
    return dict(obs=None, asserts=asserts, facts=dict(pandas=o1["kind"], polars=o2["kind"], reason_pd=o1.get("reason"), reason_pl=o2.get("reason"),
                                                     cols_pd=cols1, cols_pl=cols2, documented=[ok, why], _msg=o2.get("msg")))


def templates(tier, seed):
    ts = []
    for N in ((2,) if tier == "quick" else (1, 2, 3)):
        for kind, table in (("float", NUM), ("int", NUM), ("str", STR)):
            for cname in table:
                if tier == "quick" and kind == "int" and cname not in ("ge", "isin", "in_range"):
                    continue
                for ina in (True, False):
                    ts.append(Template(f"CHK/{kind}/{cname}/ina={int(ina)}/N={N}", equiv_case, (kind, cname, N, ina)))
    for arr in (["a", "b"], ["b", "a"], ["a"], ["b"], ["a", "b", "x"], ["x", "a", "b"], ["a", "x", "b"]):
        for strict in (False, True, "filter"):
            for ordered in (False, True):
                ts.append(Template(f"LBL/{''.join(arr)}/strict={strict}/ordered={int(ordered)}", label_twin_case, (arr, strict, ordered)))
    import itertools

    arrs3 = []
    for k in (1, 2, 3):
        for sub in itertools.permutations(["a", "b", "c"], k):
            arrs3.append(list(sub))
    arrs3 += [["a", "x", "c"], ["x", "a", "b", "c"], ["a", "c", "x"], ["a", "b", "x", "c"]]
    for arr in arrs3:
        for strict in (False, True, "filter"):
            for ordered in (False, True):
                if tier == "quick" and not ordered and strict is False and len(arr) == 3 and arr != ["a", "b", "c"]:
                    continue
                ts.append(Template(f"LBL3/{''.join(arr)}/strict={strict}/ordered={int(ordered)}", label_twin3_case, (arr, strict, ordered)))
    # stage 2: whole-schema equivalence on the frame models (same cell variables on both sides) and the polars verdict against
    # the backend-neutral oracle C01 uses for pandas
    import tmpl
    import tmpl_pl

    ts += [Template(tid, fn, args) for tid, fn, args in tmpl_pl.equiv_cases(tier)]
    ts += [Template(tid, tmpl.pick(fn, ["verdict"]), args) for tid, fn, args in tmpl_pl.verdict_cases(tier)]
    # a stand-alone Column on a frame that holds other columns: the verdict concerns the named column, the others come back as they were
    ts += [Template(tid, tmpl.pick(fn, ["verdict", "column"]), args) for tid, fn, args in tmpl_pl.standard_cases(tier) if tid.startswith("PL/COL/")]
    # a regex column with coercion: the matched integer columns are converted and judged as on pandas
    ts += [Template(tid, tmpl.pick(fn, ["verdict", "channel"]), args) for tid, fn, args in tmpl_pl.regex_cases(tier) if "coerce" in tid]
    return ts
