"""C12 — schema serialisation round-trips (dictionary level under a YAML/JSON contract stub; every path's solver
model is additionally pushed through the REAL to_yaml/from_yaml, to_json/from_json and to_script + exec)."""
import tmpl
from pvrun import Template

PROPERTY = "C12"
LABELS = ["roundtrip"]
t_rt = tmpl.pick(tmpl.roundtrip_case, LABELS)
STUBS = ["yaml.safe_dump/safe_load and json.dumps/loads: identity on the YAML/JSON value domain (tuples -> lists, JSON keys -> str), raise on any other leaf; "
         "validated per path by the concrete replay through the real libraries"]


def templates(tier, seed):
    ts = []
    for shape in ("base", "two_same_kind", "df_checks", "multiindex", "index_flags", "regex", "joint_unique", "no_index", "str_checks", "datetime_range"):
        for fmt in ("yaml", "json"):
            ts.append(Template(f"{shape}/{fmt}", t_rt, (shape, fmt), max_paths=3000 if tier == "quick" else 20000, budget_s=60 if tier == "quick" else 900,
                               extra_witnesses=(fmt == "yaml")))
    return ts
