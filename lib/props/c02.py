"""C02 — lazy and eager validation agree; the error report is exact (pandas part)."""
import tmpl
from pvrun import Template

PROPERTY = "C02"
LABELS = ["lazy_eager_agree", "eager_error_among_lazy", "report", "lazy"]
t_lazy = tmpl.pick(tmpl.lazy_case, LABELS)


def templates(tier, seed):
    ts = []
    Ns = (2,) if tier == "quick" else (1, 2, 3)
    for N in Ns:
        for kind, checks in (("float", ["ge", "in_range", "ne", "isin"]), ("str", ["str_matches", "eq"]), ("int", ["le"])):
            for c in checks:
                for rd in (("all",) if tier == "quick" and c != "ge" else ("all", "exclude_first", "exclude_last")):
                    ts.append(Template(f"S/{kind}/{c}/rd={rd}/N={N}", t_lazy, ("series", N, dict(kind=kind, check=c, rd=rd))))
        for arr in (["a", "b"], ["b", "a"], ["a"], ["b"], ["a", "b", "x"]):
            for strict in (False, True):
                ts.append(Template(f"F/{''.join(arr)}/strict={strict}/N={N}", t_lazy, ("frame", N, dict(arr=arr, strict=strict))))
        for rd in ("all", "exclude_first", "exclude_last"):
            ts.append(Template(f"F/joint_unique/rd={rd}/N={N}", t_lazy, ("frame", N, dict(arr=["a", "b"], unique=["a", "b"], rd=rd))))
        # a regex column governing several columns, one of them with the wrong physical dtype: the report must name that column
        for arr, kinds in ((["a1", "a2", "b"], {"a1": "int"}), (["a1", "a2", "b"], {"a2": "int"}), (["a1", "a2", "b"], {}), (["a1", "b", "a2"], {"a1": "int", "a2": "int"})):
            ts.append(Template(f"R/{''.join(arr)}/wrong={'+'.join(kinds) or 'none'}/N={N}", t_lazy, ("frame", N, dict(arr=arr, kinds=kinds, regex="^a[0-9]$"))))
        ts.append(Template(f"F/ab/wrong=a/N={N}", t_lazy, ("frame", N, dict(arr=["a", "b"], kinds={"a": "int"}))))
        # restricted validation depth / coercion failure: lazy and eager still agree, counts equal the collected errors per reason
        for depth in ("SO", "DO"):
            for arr, extra in ((["a", "b"], {}), (["a", "b", "x"], {"strict": True}), (["a", "b"], {"coerce_a_int": True}), (["b"], {})):
                tag = "+".join(f"{k}={v}" for k, v in extra.items()) or "plain"
                ts.append(Template(f"D/{depth}/{''.join(arr)}/{tag}/N={N}", t_lazy, ("frame", N, dict(arr=arr, depth=depth, **extra))))
        ts.append(Template(f"F/ab/coerce_a_int/N={N}", t_lazy, ("frame", N, dict(arr=["a", "b"], coerce_a_int=True))))
        ts.append(Template(f"F/ab/coerce_a_int+index_coerce_float/N={N}", t_lazy, ("frame", N, dict(arr=["a", "b"], coerce_a_int=True, index_coerce_float=True))))
        ts.append(Template(f"F/ab/index_coerce_float/N={N}", t_lazy, ("frame", N, dict(arr=["a", "b"], index_coerce_float=True))))
    for N in Ns:
        ts.append(Template(f"S/float/ge/dup_labels/N={N}", t_lazy, ("series", N, dict(kind="float", check="ge", dup_labels=True))))
    # several jointly unique sets: the duplicates of every violated set are reported (three rows: duplicated in a, not in b)
    for rd in (("exclude_first",) if tier == "quick" else ("all", "exclude_first", "exclude_last")):
        ts.append(Template(f"F/unique_sets/rd={rd}/N=3", t_lazy, ("frame", 3, dict(arr=["a", "b"], unique=[["a"], ["b"]], rd=rd))))
    # a MultiIndex frame: index-level failure cases name the row label (the tuple of level values), not a position
    for N in Ns:
        ts.append(Template(f"MI/frame_multiindex/N={N}", tmpl.pick(tmpl.index_case, ["report", "channel"]), ("frame_multiindex", N, dict(lazy=True))))
    import tmpl_pl

    ts += [Template(tid, tmpl.pick(fn, LABELS), args) for tid, fn, args in tmpl_pl.lazy_cases(tier)]
    return ts
