"""C02 — lazy and eager validation agree; the error report is exact (pandas part)."""
import tmpl
from pvrun import Template

PROPERTY = "C02"
LABELS = ["lazy_eager_agree", "eager_error_among_lazy", "report", "lazy"]
t_lazy = tmpl.pick(tmpl.lazy_case, LABELS)


def templates(tier, seed):
    ts = []
    Ns = (2,) if tier == "quick" else (1, 2, 3)
    for N in Ns:
        for kind, checks in (("float", ["ge", "in_range", "ne", "isin"]), ("str", ["str_matches", "eq"]), ("int", ["le"])):
            for c in checks:
                for rd in (("all",) if tier == "quick" and c != "ge" else ("all", "exclude_first", "exclude_last")):
                    ts.append(Template(f"S/{kind}/{c}/rd={rd}/N={N}", t_lazy, ("series", N, dict(kind=kind, check=c, rd=rd))))
        for arr in (["a", "b"], ["b", "a"], ["a"], ["b"], ["a", "b", "x"]):
            for strict in (False, True):
                ts.append(Template(f"F/{''.join(arr)}/strict={strict}/N={N}", t_lazy, ("frame", N, dict(arr=arr, strict=strict))))
        for rd in ("all", "exclude_first", "exclude_last"):
            ts.append(Template(f"F/joint_unique/rd={rd}/N={N}", t_lazy, ("frame", N, dict(arr=["a", "b"], unique=["a", "b"], rd=rd))))
    return ts
