"""C05 — schemas are observationally immutable: histories of operations chosen by the solver (engine.choice), the data
of every validating operation symbolic, fingerprint and probe verdict compared after every prefix."""
import tmpl
from pvrun import Template

PROPERTY = "C05"
LABELS = ["history"]
t_hist = tmpl.pick(tmpl.history_case, LABELS)


def templates(tier, seed):
    ts = []
    quick_ops = ["validate_eager", "validate_lazy", "to_yaml", "example", "transform_rename"]  # (to_yaml runs the statistics code as well)
    # two more schema shapes, validated repeatedly: a groupby check restricted by `groups`, a MultiIndex schema on data whose levels share a name
    for variant in ("groupby",):  # (data whose MultiIndex levels share a name needs duplicate column labels in the frame model: not modelled)
        for fx in ((), ("validate_eager", "validate_eager"), ("validate_lazy", "validate_eager"), ("validate_eager", "statistics")):
            ts.append(Template(f"{variant}/k={len(fx) or 1}/N=2" + ("/" + ">".join(fx) if fx else ""), t_hist, (variant, len(fx) or 1, 2, ["validate_eager", "validate_lazy", "repr", "deepcopy"], fx),
                               max_paths=30000, budget_s=100 if tier == "quick" else 1200))
    # check statistics that are lists of date-time values, through the serialisers and the statistics code
    dt_ops = ["to_yaml", "to_json", "to_script", "statistics", "validate_lazy", "repr", "eq", "deepcopy"]
    for a in dt_ops:
        ts.append(Template(f"datetime_stats/k=2/N=1/{a}", t_hist, ("datetime_stats", 2, 1, dt_ops, (a,)), max_paths=30000, budget_s=100 if tier == "quick" else 1200))
    for variant in ("regex", "dtype", "plain"):
        for k in ((1, 2) if tier == "quick" else (1, 2, 3)):
            N = 1 if k > 1 else 2
            ops = None if (k == 1 or (tier == "thorough" and k == 2)) else quick_ops
            opl = ops or tmpl.H_OPS
            if k == 1:
                prefixes = [()]
            elif k == 2:  # one template per (first, second) pair keeps templates small and parallel
                prefixes = [(a, b) for a in opl for b in opl]
            else:
                prefixes = [(a, b) for a in opl for b in opl]
            for fx in prefixes:
                ts.append(Template(f"{variant}/k={k}/N={N}" + ("/" + ">".join(fx) if fx else ""), t_hist, (variant, k, N, ops, fx),
                                   max_paths=30000, budget_s=100 if tier == "quick" else 1200))
    return ts
