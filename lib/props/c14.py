"""C14 — an inferred schema accepts the data it was inferred from; bounds are tight; survives serialisation.

Plus a bit-precise lemma (QF_BVFP) for the one place pandera converts cell values: float(x.min()) on int64 columns —
for all int64 m <= x: fp64(m) <= fp64(x), which is what the comparison `int64 column >= float bound` computes."""
import time

import tmpl
from pvrun import Template

PROPERTY = "C14"
LABELS = ["infer"]
t_inf = tmpl.pick(tmpl.infer_case, LABELS)
ASSUMPTIONS = ["symbolic run: integers |x| <= 2^31 so that float(x) is exact; the rounding case is covered by the QF_BVFP lemma over all int64 pairs",
               "categoricals, tz-aware datetimes and timedeltas are outside (C boundary)"]


def lemma(v):
    raise NotImplementedError


def run_template(t, tier, seed):
    if not t.tid.startswith("LEMMA/"):
        from pvrun import explore_template

        return explore_template(t, tier, seed)
    import z3

    t0 = time.time()
    res = dict(tid=t.tid, paths=1, ret_paths=1, gaps={}, harness_errors=[], mismatches=[], obligations=0, discharged=0, trivial=0, inconclusive=0,
               cex=[], replayed_ok=0, exhausted=True, samples=[], twin_refuted=None, labels={}, kinds={}, queries=0, solver_time=0.0, decisions=1)
    x, m = z3.BitVecs("x m", 64)
    rne = z3.RNE()
    fx, fm = z3.fpSignedToFP(rne, x, z3.Float64()), z3.fpSignedToFP(rne, m, z3.Float64())
    lemmas = {"monotone": z3.Implies(m <= x, z3.fpLEQ(fm, fx)),  # signed comparison on the left
              "reflexive": z3.fpLEQ(fx, fx)}
    for name, phi in lemmas.items():
        if t.args[0] != name:
            continue
        res["obligations"] += 1
        verdicts = {}
        smt2 = "(set-logic QF_BVFP)\n" + "\n".join(f"(declare-const {n} (_ BitVec 64))" for n in ("x", "m")) + f"\n(assert (not {phi.sexpr()}))\n(check-sat)\n"
        try:
            import cvc5

            slv = cvc5.Solver()
            slv.setOption("tlimit-per", str(120000 if tier == "quick" else 600000))
            slv.setLogic("QF_BVFP")
            ip = cvc5.InputParser(slv)
            ip.setStringInput(cvc5.InputLanguage.SMT_LIB_2_6, smt2, "lemma")
            sm = ip.getSymbolManager()
            r = None
            while True:
                cmd = ip.nextCommand()
                if cmd.isNull():
                    break
                out = cmd.invoke(slv, sm)
                if "sat" in str(out):
                    r = str(out).strip()
            verdicts["cvc5"] = r
        except Exception as exc:  # noqa: BLE001
            verdicts["cvc5"] = "error:" + type(exc).__name__ + ":" + str(exc)[:80]
        if verdicts.get("cvc5") != "unsat" or tier == "thorough":
            s = z3.Solver()
            s.set("timeout", 120000 if tier == "quick" else 600000)
            s.add(z3.Not(phi))
            verdicts["z3"] = str(s.check())
        res["queries"] += len(verdicts)
        vs = set(verdicts.values())
        res["samples"].append(dict(template=t.tid, lemma=name, formula=phi.sexpr()[:300], verdicts=verdicts))
        if "sat" in vs:
            res["cex"].append(dict(tid=t.tid, label="lemma/" + name, vals={}, facts=dict(verdicts=verdicts), confirmed=False, detail="lemma refuted", args=list(t.args)))
        elif "unsat" in vs:
            res["discharged"] += 1
        else:
            res["inconclusive"] += 1
    res["solver_time"] = round(time.time() - t0, 2)
    res["wall"] = round(time.time() - t0, 2)
    res["replayed_ok"] = 1
    return res


def templates(tier, seed):
    ts = []
    for N in ((0, 1, 2) if tier == "quick" else (0, 1, 2, 3)):
        for kinds in (["int"], ["float"], ["str"], ["bool"], ["float", "int"], ["str", "float"]):
            if tier == "quick" and N == 0 and len(kinds) > 1:
                continue
            ts.append(Template(f"frame/{'+'.join(kinds)}/N={N}", t_inf, ("frame", kinds, N, True)))
        for kind in ("int", "float", "str"):
            ts.append(Template(f"series/{kind}/N={N}", t_inf, ("series", [kind], N, False)))
    for N in ((1, 2) if tier == "quick" else (1, 2, 3)):
        for shape in ("mi", "mi_filtered", "mi_emptyname"):
            ts.append(Template(f"{shape}/float/N={N}", t_inf, (shape, ["float"], N, True)))
    for N in ((2, 3) if tier == "quick" else (1, 2, 3, 4)):
        for shape in ("frame_default_index", "frame_reversed"):
            ts.append(Template(f"{shape}/float/N={N}", t_inf, (shape, ["float"], N, True)))
    ts.append(Template("LEMMA/monotone", lemma, ("monotone",)))
    ts.append(Template("LEMMA/reflexive", lemma, ("reflexive",)))
    return ts
